"""Process bootstrap shared by every check: import paths, headless plotting,
quiet warnings, offline dependency bootstrap.

Imported first by run_check.py (parent and shard processes alike).
"""
import os
import subprocess
import sys
import warnings

VERIF = os.path.dirname(os.path.dirname(os.path.abspath(__file__)))
REPO = os.environ.get("PYREPSEQ_SRC", "/repo")
DEPS = os.path.join(VERIF, ".deps")
VENDOR = os.path.join(VERIF, "vendor")
WHEELS = "/opt/veriftools/wheels"

os.environ.setdefault("MPLBACKEND", "Agg")
os.environ.setdefault("PYTHONDONTWRITEBYTECODE", "1")
os.environ.setdefault("PYTHONHASHSEED", "0")
os.environ.setdefault("TQDM_DISABLE", "1")
# 16 shard processes: keep BLAS/OpenMP from spawning 16 threads each (pure start-up cost here)
for _v in ("OPENBLAS_NUM_THREADS", "OMP_NUM_THREADS", "MKL_NUM_THREADS", "NUMEXPR_NUM_THREADS"):
    os.environ.setdefault(_v, "1")
# hooks in /repo (none needed so far) would be guarded by this variable
os.environ.setdefault("PYREPSEQ_VERIF", "1")
sys.dont_write_bytecode = True

# the code under test always comes from the working tree (or a scratch copy
# named by PYREPSEQ_SRC when the sensitivity driver tests a mutant)
for p in (VERIF, REPO):
    if p in sys.path:
        sys.path.remove(p)
sys.path.insert(0, VERIF)
sys.path.insert(0, REPO)
# the stand-in for the absent optional dependency pwseqdist (C14/C20 only)
if VENDOR not in sys.path:
    sys.path.append(VENDOR)
if DEPS not in sys.path:
    sys.path.append(DEPS)

warnings.filterwarnings("ignore")


def ensure_deps(pkgs=("hypothesis",)):
    """Install missing pure-offline dependencies into /verif/.deps."""
    missing = []
    for p in pkgs:
        try:
            __import__(p)
        except Exception:
            missing.append(p)
    if not missing:
        return
    os.makedirs(DEPS, exist_ok=True)
    cmd = [sys.executable, "-m", "pip", "install", "--quiet", "--no-index",
           "--find-links", WHEELS, "--target", DEPS] + missing
    subprocess.run(cmd, stdout=subprocess.DEVNULL, stderr=subprocess.DEVNULL)
    import importlib
    importlib.invalidate_caches()
    for p in missing:
        __import__(p)


def import_pyrepseq():
    with warnings.catch_warnings():
        warnings.simplefilter("ignore")
        import pyrepseq  # noqa
    src = os.path.realpath(os.path.dirname(pyrepseq.__file__))
    want = os.path.realpath(os.path.join(REPO, "pyrepseq"))
    if src != want:
        raise RuntimeError(f"pyrepseq imported from {src}, expected {want}")
    return pyrepseq
