"""Coverage-guided fuzzing of a sub-check with atheris (libFuzzer), thorough tier only.

A check module may expose FUZZ = {target_name: (decode, sub_name)} where
``decode(fdp) -> case`` turns fuzzer bytes (through atheris.FuzzedDataProvider)
into the same JSON case the sub-check's ``check(case, rec)`` takes. The semantic
oracle therefore runs inside the fuzz target. This module is executed as a
separate process per campaign:

    python -m vlib.fuzz <PROP> <target> --runs N --seed S --out stats.json [--corpus DIR]

It writes running statistics to --out (atexit handlers do not run under
libFuzzer) and, on a violation, the failing case before aborting the campaign.
"""
import argparse
import importlib
import json
import os
import sys

sys.path.insert(0, os.path.dirname(os.path.dirname(os.path.abspath(__file__))))
from vlib import boot  # noqa: E402
from vlib.core import Recorder, Violation, jsonable  # noqa: E402


def main():
    ap = argparse.ArgumentParser()
    ap.add_argument("prop")
    ap.add_argument("target")
    ap.add_argument("--runs", type=int, default=20000)
    ap.add_argument("--seed", type=int, default=1)
    ap.add_argument("--out", required=True)
    ap.add_argument("--corpus", default=None)
    ap.add_argument("--max_len", type=int, default=256)
    a = ap.parse_args()
    boot.ensure_deps(("atheris",))
    import atheris

    with atheris.instrument_imports(include=["pyrepseq"]):
        mod = importlib.import_module(f"checks.{a.prop.lower()}")
    decode, subname = mod.FUZZ[a.target]
    sub = {s.name: s for s in mod.SUBS}[subname]
    rec = Recorder()
    rec.sub = f"fuzz:{a.target}"
    state = {"n": 0, "violation": None, "decode_errors": 0}

    def dump():
        with open(a.out, "w") as f:
            json.dump({"evaluations": rec.evaluations, "hashes": sorted(rec.hashes), "classes": dict(rec.classes),
                       "samples": rec.samples, "violation": state["violation"], "executions": state["n"],
                       "per_sub": rec.per_sub}, f)

    def one(data):
        state["n"] += 1
        fdp = atheris.FuzzedDataProvider(data)
        try:
            case = decode(fdp)
        except Exception:  # noqa: BLE001 - malformed bytes are simply not a case
            state["decode_errors"] += 1
            return
        if case is None:
            return
        try:
            sub.check(case, rec)
        except Violation as v:
            state["violation"] = {"sub": subname, "kind": v.kind, "message": v.msg[:2000], "case": jsonable(case), "via": f"atheris:{a.target}"}
            dump()
            raise
        if state["n"] % 500 == 0:
            dump()

    argv = [sys.argv[0], f"-runs={a.runs}", f"-seed={a.seed if a.seed else 1}", f"-max_len={a.max_len}", "-print_final_stats=0", "-verbosity=0"]
    if a.corpus:
        os.makedirs(a.corpus, exist_ok=True)
        argv.append(a.corpus)
    dump()
    atheris.Setup(argv, one)
    try:
        atheris.Fuzz()
    finally:
        dump()


if __name__ == "__main__":
    main()
