"""Helpers used by the check modules."""
import math
from collections import Counter

from .core import Violation, Sub, Recorder  # noqa: F401
from . import oracles as O  # noqa: F401
from . import gens as G  # noqa: F401


def call(kind, fn, *args, **kwargs):
    """Call the code under test where the property says a result must come
    back: any exception is a violation (of kind `kind:raises:<Type>`)."""
    try:
        return fn(*args, **kwargs)
    except Violation:
        raise
    except Exception as e:  # noqa: BLE001
        raise Violation(f"{kind}:raises:{type(e).__name__}", f"{type(e).__name__}: {e}")


def must_raise(kind, fn, *args, **kwargs):
    """The property says the call must be rejected with an error."""
    try:
        r = fn(*args, **kwargs)
    except Exception:  # noqa: BLE001
        return
    raise Violation(f"{kind}:accepted", f"call returned {str(r)[:200]!r} instead of raising")


def trip(result):
    """Canonical list of (int, int, number) from any triplet-ish result."""
    out = []
    for t in result:
        i, j, d = t[0], t[1], t[2]
        if isinstance(i, bool) or isinstance(j, bool):
            raise Violation("triplet-type", f"boolean position in {t!r}")
        ii, jj = int(i), int(j)
        if ii != i or jj != j:
            raise Violation("triplet-type", f"non-integer position in {t!r}")
        dd = float(d)
        if math.isfinite(dd) and dd == int(dd):
            dd = int(dd)
        out.append((ii, jj, dd))
    return out


def same_multiset(kind, got, want, ctx=""):
    cg, cw = Counter(got), Counter(want)
    if cg == cw:
        return
    missing = list((cw - cg).elements())[:6]
    extra = list((cg - cw).elements())[:6]
    raise Violation(kind, f"{ctx} missing={missing} extra/repeated={extra} (|got|={len(got)}, |want|={len(want)})")


def close(a, b, rel=1e-12, abs_=1e-12):
    if a is None or b is None:
        return a is b
    fa, fb = float(a), float(b)
    if math.isnan(fa) or math.isnan(fb):
        return math.isnan(fa) and math.isnan(fb)
    if math.isinf(fa) or math.isinf(fb):
        return fa == fb
    return abs(fa - fb) <= max(abs_, rel * max(abs(fa), abs(fb)))


def all_close(kind, got, want, ctx="", rel=1e-12, abs_=1e-12):
    got, want = list(got), list(want)
    if len(got) != len(want):
        raise Violation(kind, f"{ctx} length {len(got)} != {len(want)}: got={got[:10]} want={want[:10]}")
    for k, (a, b) in enumerate(zip(got, want)):
        if not close(a, b, rel, abs_):
            raise Violation(kind, f"{ctx} at [{k}] got={a!r} want={float(b)!r}; got={[float(x) for x in got][:12]} want={[float(x) for x in want][:12]}")
