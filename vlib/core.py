"""Runner core: sub-checks, recorder, shard worker, parent merge, evidence.

A property check module (checks/cNN.py) exposes

    PROPERTY = "C01"
    RULE     = "how cases are generated and what makes one non-trivial"
    ASSUMPTIONS = [...]
    SUBS = [Sub(...), ...]

Each Sub has a ``check(case, rec)`` function over a JSON-serialisable ``case``
(so a failing case *is* the replay file), and either a Hypothesis strategy, a
finite enumeration, or a rule-based state machine that produces such cases.
"""
import hashlib
import json
import math
import os
import subprocess
import sys
import time
import traceback
from collections import Counter

from . import boot

TIERS = ("quick", "thorough")


def out_dir():
    """Where evidence/, failures/ and .work/ are written: /verif, or a scratch directory named by VERIF_OUT
    (used by the sensitivity driver so that runs against mutants never touch the committed evidence)."""
    return os.environ.get("VERIF_OUT") or boot.VERIF
PREPARE_FIRST = {"C20"}
# thorough tier: generated-case budgets are the per-sub "thorough" numbers times this factor (5-15 min per property on 16 idle cores)
THOROUGH_FACTOR = float(os.environ.get("VERIF_THOROUGH_FACTOR", "4"))


class Violation(Exception):
    """The property was observed to fail on the real code."""

    def __init__(self, kind, msg="", case=None):
        super().__init__(f"{kind}: {msg}")
        self.kind = kind
        self.msg = msg
        self.case = case      # optional: a confirmed / minimised replay case chosen by the check itself


class Sub:
    def __init__(self, name, check, strategy=None, enum=None, machine=None,
                 budget=(200, 2000), doc=""):
        self.name = name
        self.check = check
        self.strategy = strategy      # callable(tier) -> hypothesis strategy of cases
        self.enum = enum              # callable(tier) -> iterable of cases
        self.machine = machine        # callable(tier, rec) -> RuleBasedStateMachine subclass
        self.budget = {"quick": budget[0], "thorough": budget[1]}
        self.doc = doc


def canon(obj):
    return json.dumps(obj, sort_keys=True, default=_json_default, separators=(",", ":"))


def _json_default(o):
    import numpy as np
    if isinstance(o, (np.integer,)):
        return int(o)
    if isinstance(o, (np.floating,)):
        return float(o)
    if isinstance(o, np.ndarray):
        return o.tolist()
    if isinstance(o, (set, frozenset)):
        return sorted(o, key=repr)
    if isinstance(o, tuple):
        return list(o)
    return repr(o)


def jsonable(obj):
    return json.loads(canon(obj))


class Recorder:
    MAX_SAMPLES = 4

    def __init__(self):
        self.evaluations = 0
        self.hashes = set()
        self.classes = Counter()
        self.samples = []
        self.excluded = 0
        self.skipped_budget = 0
        self.sub = "?"
        self.per_sub = {}

    def note(self, case, nontrivial, classes=()):
        """Called once per executed case, after classification."""
        self.evaluations += 1
        ps = self.per_sub.setdefault(self.sub, {"evaluations": 0, "nontrivial": 0})
        ps["evaluations"] += 1
        for c in classes:
            self.classes[f"{self.sub}:{c}"] += 1
        if nontrivial:
            ps["nontrivial"] += 1
            h = hashlib.sha1((self.sub + canon(case)).encode()).hexdigest()[:16]
            if h not in self.hashes:
                self.hashes.add(h)
                nsub = sum(1 for s in self.samples if s["sub"] == self.sub)
                if nsub < 1 or (len(self.samples) < self.MAX_SAMPLES and nsub < 2):
                    s = canon(case)
                    if len(s) < 4000:
                        self.samples.append({"sub": self.sub, "case": json.loads(s)})


def derive_seed(seed, *parts):
    s = ":".join([str(seed)] + [str(p) for p in parts])
    return int(hashlib.sha1(s.encode()).hexdigest()[:8], 16)


# ----------------------------------------------------------------------------
# shard worker
# ----------------------------------------------------------------------------

def _hyp_settings(n, tier):
    from hypothesis import settings, HealthCheck, Phase
    return settings(
        max_examples=max(1, n), deadline=None, database=None, derandomize=False,
        report_multiple_bugs=False, suppress_health_check=list(HealthCheck),
        phases=[Phase.generate, Phase.shrink], print_blob=False,
    )


class _Budget:
    def __init__(self, seconds):
        self.t0 = time.time()
        self.seconds = seconds

    def over(self):
        return self.seconds is not None and time.time() - self.t0 > self.seconds


def run_sub(sub, prop, tier, seed, shard, nshards, rec, budget, only_kind_limit=4):
    """Run one sub-check in this shard; returns list of violation dicts."""
    from hypothesis import given, seed as hseed
    from hypothesis.errors import HypothesisException
    rec.sub = sub.name
    out = []
    n = int(math.ceil(sub.budget[tier] * (THOROUGH_FACTOR if tier == "thorough" else 1) / nshards))

    def guarded(case, excluded):
        if budget.over():
            rec.skipped_budget += 1
            return
        try:
            sub.check(case, rec)
        except Violation as v:
            if v.kind in excluded:
                rec.excluded += 1
                return
            raise

    if sub.enum is not None:
        seen = {}
        for idx, case in enumerate(sub.enum(tier)):
            if idx % nshards != shard:
                continue
            try:
                guarded(case, ())
            except Violation as v:
                prev = seen.get(v.kind)
                c = jsonable(v.case if v.case is not None else case)
                if prev is None or len(canon(c)) < len(canon(prev["case"])):
                    seen[v.kind] = {"sub": sub.name, "kind": v.kind, "message": v.msg[:2000], "case": c}
                if len(seen) >= 8:
                    break
        out.extend(seen.values())

    if sub.strategy is not None:
        excluded = set()
        for attempt in range(only_kind_limit):
            last = {}

            @hseed(derive_seed(seed, prop, sub.name, shard, attempt))
            @_hyp_settings(n, tier)
            @given(sub.strategy(tier))
            def t(case):
                try:
                    guarded(case, excluded)
                except Violation as v:
                    last["case"], last["v"] = case, v
                    raise

            try:
                t()
            except Violation as v:
                v = last.get("v", v)
                out.append({"sub": sub.name, "kind": v.kind, "message": v.msg[:2000],
                            "case": jsonable(last.get("case"))})
                excluded.add(v.kind)
                continue
            except HypothesisException as e:
                # Flaky / Unsatisfiable: a harness problem unless a violation was seen
                if "v" in last:
                    v = last["v"]
                    out.append({"sub": sub.name, "kind": v.kind, "message": (v.msg + f" [hypothesis: {type(e).__name__}]")[:2000],
                                "case": jsonable(last.get("case"))})
                    excluded.add(v.kind)
                    continue
                raise
            break

    if sub.machine is not None:
        from hypothesis.stateful import run_state_machine_as_test
        from hypothesis import settings, HealthCheck, Phase
        cls = sub.machine(tier, rec)
        steps = getattr(cls, "STEPS", 20)
        phases = [Phase.generate] if getattr(cls, "NO_SHRINK", False) else [Phase.generate, Phase.shrink]
        st = settings(max_examples=max(1, n), stateful_step_count=steps, deadline=None,
                      database=None, report_multiple_bugs=False,
                      suppress_health_check=list(HealthCheck),
                      phases=phases, print_blob=False)
        try:
            run_state_machine_as_test(hseed(derive_seed(seed, prop, sub.name, shard))(cls), settings=st)
        except Violation as v:
            out.append({"sub": sub.name, "kind": v.kind, "message": v.msg[:2000],
                        "case": jsonable(v.case if v.case is not None else {"ops": cls.trace})})
    return out


def run_fuzz(mod, seed, shard, nshards, rec, res):
    """Thorough tier: one atheris (libFuzzer) campaign per fuzz target and shard, each in its own process with its own
    corpus directory; the semantic oracle runs inside the target (vlib/fuzz.py)."""
    out = []
    targets = sorted(mod.FUZZ)
    runs_total = int(getattr(mod, "FUZZ_RUNS", 160000) * THOROUGH_FACTOR)
    for ti, target in enumerate(targets):
        work = os.path.join(out_dir(), ".work", mod.PROPERTY)
        stats = os.path.join(work, f"fuzz_{target}_{shard}.json")
        corpus = os.path.join(work, f"corpus_{target}_{shard}")
        import shutil
        shutil.rmtree(corpus, ignore_errors=True)
        if shard % 2 == 1 and hasattr(mod, "fuzz_seed_corpus"):
            # odd shards start from a few small valid inputs, even shards from an empty corpus
            os.makedirs(corpus, exist_ok=True)
            for i, blob in enumerate(mod.fuzz_seed_corpus(target)):
                with open(os.path.join(corpus, f"seed{i}"), "wb") as f:
                    f.write(blob)
        cmd = [sys.executable, "-m", "vlib.fuzz", mod.PROPERTY, target, "--runs", str(max(1000, runs_total // nshards)),
               "--seed", str(derive_seed(seed, mod.PROPERTY, target, shard) % (2 ** 31 - 1) + 1), "--out", stats, "--corpus", corpus]
        ts = time.time()
        try:
            subprocess.run(cmd, cwd=boot.VERIF, stdout=subprocess.DEVNULL, stderr=subprocess.DEVNULL, timeout=1500,
                           env=dict(os.environ, PYTHONHASHSEED="0"))
        except subprocess.TimeoutExpired:
            rec.skipped_budget += 1
        shutil.rmtree(corpus, ignore_errors=True)
        if not os.path.exists(stats):
            res["errors"].append(f"fuzz target {target}: no statistics written")
            continue
        with open(stats) as f:
            st = json.load(f)
        name = f"fuzz:{target}"
        rec.evaluations += st["evaluations"]
        rec.hashes.update(st["hashes"])
        rec.classes.update(st["classes"])
        for smp in st["samples"][:1]:
            rec.samples.append(smp)
        ps = rec.per_sub.setdefault(name, {"evaluations": 0, "nontrivial": 0})
        ps["evaluations"] += st["evaluations"]
        ps["nontrivial"] += sum(v.get("nontrivial", 0) for v in st.get("per_sub", {}).values())
        ps["executions"] = st.get("executions", 0)
        ps["wall_s"] = round(time.time() - ts, 2)
        if st.get("violation"):
            v = st["violation"]
            out.append({"sub": v["sub"], "kind": v["kind"], "message": v["message"] + f" [found by {v['via']}]", "case": v["case"]})
    return out


def shard_main(mod, tier, seed, shard, nshards, outpath, wall):
    boot.ensure_deps()
    rec = Recorder()
    res = {"violations": [], "errors": []}
    budget = _Budget(wall)
    t0 = time.time()
    try:
        if hasattr(mod, "selftest"):
            mod.selftest()
        # regression tier: committed replay files, split over the shards
        rdir = os.path.join(boot.VERIF, "replays", mod.PROPERTY)
        subs = {s.name: s for s in mod.SUBS}
        if os.path.isdir(rdir):
            for k, fn in enumerate(sorted(os.listdir(rdir))):
                if not fn.endswith(".json") or k % nshards != shard:
                    continue
                with open(os.path.join(rdir, fn)) as f:
                    rp = json.load(f)
                sub = subs.get(rp.get("sub"))
                if sub is None:
                    continue
                rec.sub = sub.name
                try:
                    sub.check(rp["case"], rec)
                except Violation as v:
                    res["violations"].append({"sub": sub.name, "kind": v.kind, "message": v.msg[:2000],
                                              "case": rp["case"], "from_replay": fn})
        for sub in mod.SUBS:
            if not getattr(sub, "_scaled", False):
                # per-property scale of the quick budgets (set after measuring: the quick tier should take well under a
                # minute per property on 16 idle cores)
                sub.budget["quick"] = int(sub.budget["quick"] * getattr(mod, "QUICK_SCALE", 1))
                sub._scaled = True
            ts = time.time()
            res["violations"].extend(run_sub(sub, mod.PROPERTY, tier, seed, shard, nshards, rec, budget))
            rec.per_sub.setdefault(sub.name, {"evaluations": 0, "nontrivial": 0})["wall_s"] = round(time.time() - ts, 2)
        if tier == "thorough" and hasattr(mod, "FUZZ"):
            res["violations"].extend(run_fuzz(mod, seed, shard, nshards, rec, res))
    except BaseException:
        res["errors"].append(traceback.format_exc())
    res.update(evaluations=rec.evaluations, hashes=sorted(rec.hashes), classes=dict(rec.classes),
               samples=rec.samples, excluded=rec.excluded, skipped_budget=rec.skipped_budget,
               per_sub=rec.per_sub, wall_s=time.time() - t0)
    with open(outpath, "w") as f:
        json.dump(res, f)
    return 0


# ----------------------------------------------------------------------------
# parent
# ----------------------------------------------------------------------------

def load_known():
    p = os.path.join(boot.VERIF, "known_findings.json")
    if not os.path.exists(p):
        return []
    with open(p) as f:
        return json.load(f).get("findings", [])


def match_known(known, prop, viol):
    for k in known:
        if k.get("status") != "known" or k.get("property") != prop:
            continue
        m = k.get("match", {})
        if m.get("sub") not in (None, viol["sub"]):
            continue
        if m.get("kind") not in (None, viol["kind"]):
            continue
        return k
    return None


def write_failure(prop, viol):
    d = os.path.join(out_dir(), "failures", prop)
    os.makedirs(d, exist_ok=True)
    body = {"property": prop, "sub": viol["sub"], "kind": viol["kind"],
            "message": viol["message"], "case": viol["case"]}
    h = hashlib.sha1(canon(body["case"]).encode()).hexdigest()[:12]
    path = os.path.join(d, f"{viol['sub']}-{h}.json")
    with open(path, "w") as f:
        json.dump(body, f, indent=1, sort_keys=True)
    return path


def parent_main(prop, modname, tier, seed, nshards, wall):
    t0 = time.time()
    work = os.path.join(out_dir(), ".work", prop)
    os.makedirs(work, exist_ok=True)
    import shutil
    shutil.rmtree(os.path.join(out_dir(), "failures", prop), ignore_errors=True)
    procs = []
    env = dict(os.environ)
    env["PYTHONHASHSEED"] = "0"
    import importlib
    mod = None
    if prop in PREPARE_FIRST:
        # fresh-interpreter reference results must exist before the shards start
        mod = importlib.import_module(modname)
        mod.prepare(work, tier)
    for s in range(nshards):
        out = os.path.join(work, f"shard_{s}.json")
        if os.path.exists(out):
            os.remove(out)
        cmd = [sys.executable, os.path.join(boot.VERIF, "run_check.py"), prop, "--tier", tier,
               "--seed", str(seed), "--shard", f"{s}/{nshards}", "--out", out]
        if wall:
            cmd += ["--wall", str(wall)]
        log = open(os.path.join(work, f"shard_{s}.log"), "w")
        procs.append((subprocess.Popen(cmd, stdout=log, stderr=subprocess.STDOUT, env=env, cwd=boot.VERIF), out, log))
    merged = {"evaluations": 0, "hashes": set(), "classes": Counter(), "samples": [], "excluded": 0,
              "skipped_budget": 0, "violations": [], "errors": [], "per_sub": {}}
    for p, out, log in procs:
        rc = p.wait()
        log.close()
        if not os.path.exists(out):
            with open(log.name) as f:
                tail = f.read()[-3000:]
            merged["errors"].append(f"shard produced no output (rc={rc}): {tail}")
            continue
        with open(out) as f:
            r = json.load(f)
        merged["evaluations"] += r["evaluations"]
        merged["hashes"].update(r["hashes"])
        merged["classes"].update(r["classes"])
        merged["excluded"] += r["excluded"]
        merged["skipped_budget"] += r["skipped_budget"]
        merged["violations"].extend(r["violations"])
        merged["errors"].extend(r["errors"])
        for s in r["samples"]:
            if sum(1 for x in merged["samples"] if x["sub"] == s["sub"]) < 2:
                merged["samples"].append(s)
        for k, v in r["per_sub"].items():
            ps = merged["per_sub"].setdefault(k, {"evaluations": 0, "nontrivial": 0, "wall_s": 0.0})
            ps["evaluations"] += v.get("evaluations", 0)
            ps["nontrivial"] += v.get("nontrivial", 0)
            ps["wall_s"] = max(ps["wall_s"], v.get("wall_s", 0.0))

    if mod is None:
        mod = importlib.import_module(modname)
    known = load_known()
    # de-duplicate violations by (sub, kind): keep the smallest case
    best = {}
    for v in merged["violations"]:
        key = (v["sub"], v["kind"])
        if key not in best or len(canon(v["case"])) < len(canon(best[key]["case"])):
            best[key] = v
    new, knownhits = [], []
    for v in best.values():
        k = match_known(known, prop, v)
        (knownhits if k else new).append((v, k))

    evidence = {
        "property_id": prop, "tier": tier, "seed": int(seed), "level": "exploration",
        "coverage": {
            "evaluations": merged["evaluations"],
            "distinct_nontrivial": len(merged["hashes"]),
            "rule": mod.RULE,
            "samples": merged["samples"][:8],
            "classes": dict(sorted(merged["classes"].items())),
            "per_sub": merged["per_sub"],
            "excluded_known": merged["excluded"],
            "shards": nshards,
            "inconclusive": merged["skipped_budget"] > 0,
            "skipped_after_wall_budget": merged["skipped_budget"],
            "exhaustive": bool(getattr(mod, "EXHAUSTIVE", False)) and merged["skipped_budget"] == 0,
        },
        "assumptions": list(getattr(mod, "ASSUMPTIONS", [])),
        "wall_s": round(time.time() - t0, 2),
        "violations": len(new),
    }
    os.makedirs(os.path.join(out_dir(), "evidence"), exist_ok=True)
    with open(os.path.join(out_dir(), "evidence", f"{prop}.json"), "w") as f:
        json.dump(evidence, f, indent=1, sort_keys=True)

    for v, k in knownhits:
        print(f"KNOWN-FINDING: property={prop} {k['what']}")
    for v, _ in new:
        path = write_failure(prop, v)
        print(f"VIOLATION property={prop} replay={os.path.relpath(path, boot.VERIF) if path.startswith(boot.VERIF) else path}")
        print(f"  sub={v['sub']} kind={v['kind']} :: {v['message'][:400]}")
    print(f"[{prop}] tier={tier} seed={seed} evaluations={merged['evaluations']} "
          f"distinct_nontrivial={len(merged['hashes'])} violations={len(new)} "
          f"known={len(knownhits)} wall={evidence['wall_s']}s")
    for k, v in sorted(merged["per_sub"].items()):
        print(f"    {k}: {v}")
    if merged["errors"]:
        print("HARNESS-ERROR (not a verdict about the property):")
        for e in merged["errors"][:3]:
            print(e[-3000:])
        return 1 if new else 2
    if new:
        return 1
    if merged["evaluations"] < 1 or len(merged["hashes"]) < 2:
        print("HARNESS-ERROR: too few non-trivial cases generated")
        return 2
    return 0


def replay_main(mod, path):
    with open(path) as f:
        rp = json.load(f)
    subs = {s.name: s for s in mod.SUBS}
    sub = subs[rp["sub"]]
    rec = Recorder()
    rec.sub = sub.name
    if hasattr(mod, "selftest"):
        mod.selftest()
    try:
        sub.check(rp["case"], rec)
    except Violation as v:
        print(f"VIOLATION property={mod.PROPERTY} replay={path}")
        print(f"  sub={sub.name} kind={v.kind} :: {v.msg[:1000]}")
        return 1
    print(f"[{mod.PROPERTY}] replay {path}: property held")
    return 0
