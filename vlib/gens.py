"""Hypothesis strategies shared by the checks. Everything is built by
construction (no filter/assume), and every value is plain JSON."""
from hypothesis import strategies as st

AA = "ACDEFGHIKLMNPQRSTVWY"
SMALL_ALPHABETS = ["A", "AC", "ACD", "ACDE"]
UNICODE_POOL = "aé€\U0001d4b3 ."  # no NUL: NumPy fixed-width strings strip trailing NULs


@st.composite
def alphabet(draw, amino_only=False):
    if amino_only:
        return draw(st.sampled_from(["AC", "ACD", "CDE", "AWY", "ACDE", AA, AA, AA]))
    # "any alphabet": besides upper-case residues, letters that a normalising step (case folding, stripping, Unicode
    # normalisation) would merge or remove although they are different code points
    return draw(st.sampled_from(["A", "AC", "ACD", "ACDE", AA, AA, AA, AA, UNICODE_POOL, "AaCc", " A\tC", "e\u0301\u00e9"]))


def _edit(draw, s, alpha, allow_indel=True):
    """One edit, biased toward positions inside or next to a homopolymer run."""
    kinds = ["sub", "ins", "del"] if allow_indel else ["sub"]
    kind = draw(st.sampled_from(kinds))
    n = len(s)
    # positions adjacent to runs
    runpos = [i for i in range(n) if (i > 0 and s[i] == s[i - 1]) or (i + 1 < n and s[i] == s[i + 1])]
    if runpos and draw(st.booleans()):
        pos = draw(st.sampled_from(runpos))
    else:
        pos = draw(st.integers(0, max(0, n - 1))) if n else 0
    if kind == "sub":
        if n == 0:
            return s
        c = draw(st.sampled_from(alpha))
        return s[:pos] + c + s[pos + 1:]
    if kind == "ins":
        pos = draw(st.integers(0, n))
        # often duplicate a neighbouring letter (creates / extends a run)
        if n and draw(st.booleans()):
            c = s[min(pos, n - 1)]
        else:
            c = draw(st.sampled_from(alpha))
        return s[:pos] + c + s[pos:]
    if n == 0:
        return s
    return s[:pos] + s[pos + 1:]


@st.composite
def clonal_family(draw, alpha=AA, max_size=30, min_size=1, founder_len=(3, 12),
                  max_edits=3, allow_empty=True, allow_indel=True, cdr3_like=False,
                  equal_length=False):
    """Repertoire built from a few founders expanded by random edits, with
    duplicates, very short strings and unrelated sequences mixed in, shuffled."""
    alpha = list(alpha)
    nf = draw(st.integers(1, 3))
    seqs = []
    for _ in range(nf):
        L = draw(st.integers(*founder_len))
        body = "".join(draw(st.lists(st.sampled_from(alpha), min_size=L, max_size=L)))
        if cdr3_like:
            body = "C" + body + draw(st.sampled_from("FW"))
        seqs.append(body)
        nmut = draw(st.integers(0, 6))
        for _ in range(nmut):
            s = body
            for _ in range(draw(st.integers(0, max_edits))):
                s = _edit(draw, s, alpha, allow_indel and not equal_length)
            seqs.append(s)
    # extras
    extras = draw(st.lists(st.sampled_from(["dup", "short", "empty", "rand", "homo"]), max_size=4))
    for e in extras:
        if e == "dup":
            seqs.append(draw(st.sampled_from(seqs)))
        elif e == "short" and not equal_length:
            L = draw(st.integers(0, 2))
            seqs.append("".join(draw(st.lists(st.sampled_from(alpha), min_size=L, max_size=L))))
        elif e == "empty" and allow_empty and not equal_length:
            seqs.append("")
        elif e == "rand":
            L = len(seqs[0]) if equal_length else draw(st.integers(1, 8))
            seqs.append("".join(draw(st.lists(st.sampled_from(alpha), min_size=L, max_size=L))))
        elif e == "homo":
            L = len(seqs[0]) if equal_length else draw(st.integers(1, 6))
            seqs.append(draw(st.sampled_from(alpha)) * L)
    if not allow_empty:
        seqs = [s for s in seqs if s] or [alpha[0]]
    seqs = draw(st.permutations(seqs))
    seqs = list(seqs)[:max_size]
    while len(seqs) < min_size:
        seqs.append(draw(st.sampled_from(seqs)) if seqs else alpha[0])
    return seqs


CONTAINERS = ["list", "tuple", "ndarray", "series_default", "series_shifted",
              "series_perm", "series_str", "series_dup"]


def materialise(seqs, container, perm_seed=0):
    """Build the caller-side container for a list of strings. The *positional*
    content is always `seqs`; only the container type / index labels vary."""
    import numpy as np
    import pandas as pd
    seqs = list(seqs)
    n = len(seqs)
    if container == "list":
        return list(seqs)
    if container == "tuple":
        return tuple(seqs)
    if container == "ndarray":
        return np.array(seqs)
    if container == "series_default":
        return pd.Series(seqs)
    if container == "series_shifted":
        return pd.Series(seqs, index=range(5, 5 + n))
    if container == "series_perm":
        # a permutation of 0..n-1 that is not the identity when n > 1
        idx = list(range(n))
        r = perm_seed % max(1, n - 1) + 1 if n > 1 else 0
        idx = idx[r:] + idx[:r]
        return pd.Series(seqs, index=idx)
    if container == "series_str":
        return pd.Series(seqs, index=[f"r{i}" for i in range(n)])
    if container == "series_dup":
        return pd.Series(seqs, index=[i // 2 for i in range(n)])
    raise ValueError(container)


def has_run(s):
    return any(s[i] == s[i - 1] for i in range(1, len(s)))


# ---------------------------------------------------------------------------
# Large collections with an exact oracle that needs no all-pairs computation
# ---------------------------------------------------------------------------
PLANT_BLOCKS = "ACDEFGH"     # one letter per block; all amino acids, so every engine accepts them


def codeword(i, k):
    """The i-th codeword for radius k: block j holds letter PLANT_BLOCKS[j] repeated 1 + (k+3)*d_j times, d = base-5 digits
    of i. One edit operation changes the count of any given letter by at most one, so two different codewords (some digit
    differs => some letter count differs by >= k+3) are at Levenshtein distance >= k+3."""
    out = []
    for j, L in enumerate(PLANT_BLOCKS):
        d = (i // (5 ** j)) % 5
        out.append(L * (1 + (k + 3) * d))
    return "".join(out)


def planted_collection(n, k, salt=0, high=True):
    """n strings: distinct codewords plus, at chosen positions (the highest ones when `high`), members of a few families:
    exact duplicates and one-edit mutants of a parent codeword. A mutant is one edit away from its parent, hence at distance
    >= k+2 from every other codeword and >= k+1 from every mutant of another parent: ALL neighbour pairs within radius k lie
    inside a family. Returns (seqs, families) with families = list of position lists."""
    nfam = max(2, min(12, n // 40))
    per = 4
    n_code = n - nfam * (per - 1)
    seqs = [codeword((i * 7919 + salt) % (5 ** len(PLANT_BLOCKS)), k) for i in range(n_code)]
    assert len(set(seqs)) == len(seqs)
    parents = [n_code - 1 - 3 * f for f in range(nfam)] if high else [3 * f for f in range(nfam)]
    families = []
    extra = []
    for f, p in enumerate(parents):
        s = seqs[p]
        pos = (f * 5 + salt) % len(s)
        members = [s,                                         # exact duplicate
                   s[:pos] + "W" + s[pos + 1:],               # substitution by a letter no codeword contains
                   (s[:pos] + s[pos + 1:]) if f % 2 else (s[:pos] + "Y" + s[pos:])]   # deletion / insertion
        fam = [p]
        for mseq in members:
            fam.append(n_code + len(extra))
            extra.append(mseq)
        families.append(fam)
    return seqs + extra, families


def planted_neighbours(seqs, families, k, dist):
    out = []
    for fam in families:
        for a in fam:
            for b in fam:
                if a != b:
                    d = dist(seqs[a], seqs[b])
                    if d <= k:
                        out.append((a, b, d))
    return out


# ---------------------------------------------------------------------------
# dense collections: every single substitution of a few founders (hundreds of mutual neighbours; exact distances known)
# ---------------------------------------------------------------------------
DENSE_FOUNDERS = ["CASSLGQAYEQY", "CAWTRDNPKFHM", "CVVNDYKLSIRG"]      # pairwise Hamming = Levenshtein distance >= 9


def dense_collection(n_founders=1, per_founder=None, step=1):
    """(seqs, meta): meta[i] = (founder index, position or -1 for the founder itself, letter). Two members of one founder's
    family are at Levenshtein (= Hamming) distance 1 if founder/mutant or same position, else 2 (equal length, two differing
    positions); members of different families are >= 7 apart."""
    seqs, meta = [], []
    for fi, f in enumerate(DENSE_FOUNDERS[:n_founders]):
        fam = [(f, (fi, -1, ""))]
        for i in range(len(f)):
            for a in AA:
                if a != f[i]:
                    fam.append((f[:i] + a + f[i + 1:], (fi, i, a)))
        fam = fam[::step]
        if per_founder:
            fam = fam[:per_founder]
        for s, m in fam:
            seqs.append(s)
            meta.append(m)
    return seqs, meta


def dense_distance(ma, mb):
    """Exact Levenshtein distance between two members of a dense collection, or None when they belong to different founders."""
    if ma[0] != mb[0]:
        return None
    if ma == mb:
        return 0
    if ma[1] == -1 or mb[1] == -1 or ma[1] == mb[1]:
        return 1
    return 2


def dense_neighbours(meta, k):
    out = []
    for i, a in enumerate(meta):
        for j, b in enumerate(meta):
            if i != j:
                d = dense_distance(a, b)
                if d is not None and d <= k:
                    out.append((i, j, d))
    return out
