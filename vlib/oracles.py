"""Reference implementations — the trusted base. Nothing here imports
rapidfuzz / Levenshtein / pyrepseq (except selftest, which cross-checks)."""
import itertools
import math
from collections import Counter
from fractions import Fraction

INF = float("inf")


def lev(a, b):
    """Plain Wagner-Fischer."""
    if a == b:
        return 0
    la, lb = len(a), len(b)
    if la == 0:
        return lb
    if lb == 0:
        return la
    prev = list(range(lb + 1))
    for i in range(1, la + 1):
        cur = [i] + [0] * lb
        ca = a[i - 1]
        for j in range(1, lb + 1):
            c = prev[j - 1] + (ca != b[j - 1])
            d = prev[j] + 1
            if d < c:
                c = d
            d = cur[j - 1] + 1
            if d < c:
                c = d
            cur[j] = c
        prev = cur
    return prev[lb]


def wlev(a, b, ins=1, dele=1, sub=1):
    """Minimum total weight to turn a into b: `ins` per character of b that is
    inserted, `dele` per character of a that is dropped, `sub` per replacement."""
    la, lb = len(a), len(b)
    prev = [j * ins for j in range(lb + 1)]
    for i in range(1, la + 1):
        cur = [i * dele] + [0] * lb
        ca = a[i - 1]
        for j in range(1, lb + 1):
            c = prev[j - 1] + (0 if ca == b[j - 1] else sub)
            d = prev[j] + dele
            if d < c:
                c = d
            d = cur[j - 1] + ins
            if d < c:
                c = d
            cur[j] = c
        prev = cur
    return prev[lb]


def ham(a, b):
    if len(a) != len(b):
        return INF
    return sum(1 for x, y in zip(a, b) if x != y)


def neighbours_self(seqs, k, dist=lev):
    """Ordered pairs (i, j, d), i != j, d <= k."""
    out = []
    n = len(seqs)
    memo = {}
    for i in range(n):
        a = seqs[i]
        for j in range(i + 1, n):
            b = seqs[j]
            if dist is lev and abs(len(a) - len(b)) > k:
                continue
            key = (a, b) if a <= b else (b, a)
            d = memo.get(key)
            if d is None:
                d = dist(a, b)
                memo[key] = d
            if d <= k:
                out.append((i, j, d))
                out.append((j, i, d))
    return out


def neighbours_cross(queries, refs, k, dist=lev):
    """(q, r, d) with d = dist(queries[q], refs[r]) <= k."""
    out = []
    memo = {}
    for q, a in enumerate(queries):
        for r, b in enumerate(refs):
            if dist is lev and abs(len(a) - len(b)) > k:
                continue
            key = (a, b)
            d = memo.get(key)
            if d is None:
                d = dist(a, b)
                memo[key] = d
            if d <= k:
                out.append((q, r, d))
    return out


def condensed_index(m, i, j):
    return m * i + j - ((i + 2) * (i + 1)) // 2


def hist(values, edges):
    """NumPy histogram convention: half-open bins, last bin closed."""
    nb = len(edges) - 1
    out = [0] * nb
    for v in values:
        if v < edges[0] or v > edges[-1]:
            continue
        if v == edges[-1]:
            out[nb - 1] += 1
            continue
        for b in range(nb):
            if edges[b] <= v < edges[b + 1]:
                out[b] += 1
                break
    return out


def pc_exact(sample):
    """sum n_i(n_i-1) / (N(N-1)) as a Fraction, by literal pair counting semantics."""
    n = len(sample)
    c = Counter(sample)
    return Fraction(sum(v * (v - 1) for v in c.values()), n * (n - 1))


def pc_cross_exact(a, b):
    ca, cb = Counter(a), Counter(b)
    return Fraction(sum(v * cb.get(k, 0) for k, v in ca.items()), len(a) * len(b))


class UnionFind:
    def __init__(self, n):
        self.p = list(range(n))

    def find(self, x):
        while self.p[x] != x:
            self.p[x] = self.p[self.p[x]]
            x = self.p[x]
        return x

    def union(self, a, b):
        ra, rb = self.find(a), self.find(b)
        if ra != rb:
            self.p[rb] = ra


def components(n, edges):
    uf = UnionFind(n)
    for e in edges:
        uf.union(int(e[0]), int(e[1]))
    groups = {}
    for i in range(n):
        groups.setdefault(uf.find(i), []).append(i)
    return sorted(groups.values())


def partition_of(labels):
    g = {}
    for i, l in enumerate(labels):
        g.setdefault(l, []).append(i)
    return sorted(g.values())


def compositions(n, k):
    """All k-tuples of non-negative ints summing to n."""
    if k == 1:
        yield (n,)
        return
    for i in range(n + 1):
        for rest in compositions(n - i, k - 1):
            yield (i,) + rest


def partitions(n, maxpart=None):
    if maxpart is None or maxpart > n:
        maxpart = n
    if n == 0:
        yield ()
        return
    for p in range(min(n, maxpart), 0, -1):
        for rest in partitions(n - p, p):
            yield (p,) + rest


def multinomial_coef(counts):
    n = sum(counts)
    r = math.factorial(n)
    for c in counts:
        r //= math.factorial(c)
    return r


def all_strings(alphabet, maxlen, minlen=0):
    out = []
    for L in range(minlen, maxlen + 1):
        for t in itertools.product(alphabet, repeat=L):
            out.append("".join(t))
    return out


def selftest(n=400):
    """Cross-check the DP oracles against the Levenshtein C library on
    deterministic pseudo-random pairs; raises RuntimeError on mismatch."""
    import Levenshtein as L
    x = 12345
    def rnd(m):
        nonlocal x
        x = (1103515245 * x + 12345) % (2 ** 31)
        return x % m
    for _ in range(n):
        a = "".join("ACD"[rnd(3)] for _ in range(rnd(9)))
        b = "".join("ACD"[rnd(3)] for _ in range(rnd(9)))
        if lev(a, b) != L.distance(a, b) or wlev(a, b) != lev(a, b):
            raise RuntimeError(f"oracle selftest failed on {a!r},{b!r}")
        w = (1 + rnd(4), 1 + rnd(4), 1 + rnd(6))
        if wlev(a, b, *w) != L.distance(a, b, weights=w):
            raise RuntimeError(f"weighted oracle selftest failed on {a!r},{b!r},{w}")
