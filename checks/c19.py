"""C19 — summaries and plots encode the data faithfully (headless; data read back from the artists)."""
import itertools
import math
import re
from collections import Counter

import numpy as np
import pandas as pd
import scipy.cluster.hierarchy as hc
from hypothesis import strategies as st

from vlib import boot
from vlib.common import Sub, Violation, call, close, O, G

pyrepseq = boot.import_pyrepseq()
import matplotlib.pyplot as plt  # noqa: E402

PL = pyrepseq.plotting

PROPERTY = "C19"
QUICK_SCALE = 2
RULE = ("equal-length sequence lists (2-30 x length 1..15) over small and amino-acid alphabets, optionally pre-aligned with '-' "
        "(every column keeps >= 1 residue); count vectors with NaNs x normalize_x/y, scalex/y; label vectors (str or int) x "
        "min_count in {None,1,2,3} x NumPy seed; integer point clouds with repeats; paired / single-chain tables (3-12 rows) with "
        "arbitrary index and metadata columns, linkage_kws, cluster_kws. Oracle: regex fullmatch on every input with gaps removed "
        "and, for every string up to length L+1 over the observed letters plus one unobserved letter (exhaustive when small, "
        "sampled otherwise), fullmatch == own DP membership in the independent-site language; consensus residue count == column "
        "maximum; seqlogos matrix == per-position Counter; rankfrequency Line2D data == sorted non-missing values / ranks; "
        "colours: equal labels equal colours, rare labels black, hls distinct & non-black; density_scatter offsets == distinct "
        "points once with multiplicity colours; similarity_clustermap linkage / clusters == SciPy on own d_alpha + d_beta, "
        "data2d lower == d_alpha, upper == d_beta in dendrogram order. Non-trivial: >= 2 positions with >= 2 residues; NaNs "
        "present; >= 3 labels with one rare; repeated points; d_alpha != d_beta for some pair with a non-default index."
        " Large inputs: 1,000-300,000 sequences with exactly known per-position counts for seqlogos, seqs_to_regex and seqs_to_consensus.")
ASSUMPTIONS = ["only artist data and returned objects are read back; pixel output is not inspected",
               "alignment (mafft) is not available in the sandbox: align=False / equal-length inputs only"]


def selftest():
    O.selftest()


# ---------------------------------------------------------------------------
def columns_of(seqs):
    L = len(seqs[0])
    cols = []
    for i in range(L):
        c = Counter(s[i] for s in seqs if s[i] != "-")
        cols.append((c, any(s[i] == "-" for s in seqs)))
    return cols


def member(cols, s):
    """DP membership in the independent-site language: position i consumes one letter of its set, or nothing if optional."""
    reach = {0}
    for c, optional in cols:
        nxt = set()
        for p in reach:
            if optional:
                nxt.add(p)
            if p < len(s) and s[p] in c:
                nxt.add(p + 1)
        reach = nxt
        if not reach:
            return False
    return len(s) in reach


def seqs_of(case):
    """case["seqs"], optionally repeated case["repeat"] times with case["rare"] (sequences occurring once) inserted late: collections
    of 10^3 .. 10^5 sequences whose per-position counts are known exactly."""
    seqs = list(case["seqs"]) * case.get("repeat", 1)
    for i, r in enumerate(case.get("rare", [])):
        seqs.insert(len(seqs) - (i * 37) % (len(seqs) + 1), r)
    return seqs


def check_regex(case, rec):
    seqs = seqs_of(case)
    cols = columns_of(seqs)
    nvar = sum(1 for c, _ in cols if len(c) >= 2)
    gapped = any(o for _, o in cols)
    rec.note(case, nvar >= 2, ["gapped" if gapped else "ungapped", f"var_positions={min(nvar, 4)}"])
    rx = call("seqs_to_regex", pyrepseq.seqs_to_regex, list(seqs), align=False)
    try:
        pat = re.compile(rx)
    except re.error as e:
        raise Violation("regex-invalid", f"{rx!r}: {e}")
    for s in sorted(set(seqs)):
        t = s.replace("-", "")
        if not pat.fullmatch(t):
            raise Violation("regex-rejects-input", f"{rx!r} does not match input {s!r} (gaps removed: {t!r})")
    letters = sorted({ch for c, _ in cols for ch in c})
    other = next(a for a in G.AA + "BZ" if a not in letters)
    alpha = letters + [other]
    L = len(cols)
    total = sum(len(alpha) ** k for k in range(L + 2))
    if total <= 6000:
        cands = ("".join(t) for k in range(L + 2) for t in itertools.product(alpha, repeat=k))
    else:
        # deterministic sample: members built from the columns, mutated members, and unrelated strings
        cands = set()
        x = case.get("salt", 1) + 12345
        for _ in range(1500):
            out = []
            for c, optional in cols:
                x = (1103515245 * x + 12345) % (2 ** 31)
                if optional and x % 3 == 0:
                    continue
                pool = sorted(c) if x % 7 else alpha
                out.append(pool[(x >> 8) % len(pool)])
            s = "".join(out)
            cands.add(s)
            if s:
                p = (x >> 4) % len(s)
                cands.add(s[:p] + s[p + 1:])
                cands.add(s[:p] + other + s[p:])
                cands.add(s[:p] + alpha[(x >> 12) % len(alpha)] + s[p + 1:])
    for s in cands:
        g, w = bool(pat.fullmatch(s)), member(cols, s)
        if g != w:
            raise Violation("regex-language", f"{rx!r} {'matches' if g else 'rejects'} {s!r} but the observed-residue language says {w} (inputs {seqs[:6]})")


def check_consensus(case, rec):
    seqs = seqs_of(case)
    cols = columns_of(seqs)
    ties = sum(1 for c, _ in cols if len(c) >= 2 and sorted(c.values())[-1] == sorted(c.values())[-2])
    nvar = sum(1 for c, _ in cols if len(c) >= 2)
    rec.note(case, nvar >= 2, [f"ties={min(ties, 3)}"])
    got = call("seqs_to_consensus", pyrepseq.seqs_to_consensus, list(seqs), align=False)
    if len(got) != len(cols):
        raise Violation("consensus-length", f"{got!r} has length {len(got)}, inputs have {len(cols)}")
    for i, ((c, _), ch) in enumerate(zip(cols, got)):
        if c.get(ch, 0) != max(c.values()):
            raise Violation("consensus-not-most-frequent", f"position {i}: returned {ch!r} (count {c.get(ch, 0)}), column counts {dict(c)}")


def check_logo(case, rec):
    seqs = seqs_of(case)
    cols = columns_of(seqs)
    rec.note(case, sum(1 for c, _ in cols if len(c) >= 2) >= 2, [f"n={min(len(seqs), 10) if len(seqs) <= 1000 else '>1000'}"])
    try:
        ax, mat = call("seqlogos", PL.seqlogos, list(seqs))
        if mat.shape[0] != len(cols):
            raise Violation("logo-rows", f"matrix has {mat.shape[0]} rows for {len(cols)} positions")
        for i, (c, _) in enumerate(cols):
            for ch in (set(mat.columns) | set(c)) - {"-"}:
                g = float(mat.iloc[i][ch]) if ch in mat.columns else 0.0
                if g != c.get(ch, 0):
                    raise Violation("logo-count", f"position {i} residue {ch!r}: matrix {g}, counted {c.get(ch, 0)}")
    finally:
        plt.close("all")


def check_rankfrequency(case, rec):
    data = [float("nan") if v is None else v for v in case["data"]]
    nx, ny, sx, sy = case["normalize_x"], case["normalize_y"], case["scalex"], case["scaley"]
    vals = [v for v in data if not math.isnan(v)]
    rec.note(case, len(vals) < len(data) and len(set(vals)) >= 2, ["nan" if len(vals) < len(data) else "no_nan", f"nx={nx}", f"ny={ny}"])
    try:
        fig, ax = plt.subplots()
        arr = np.array(data, dtype={"uint8": np.uint8, "uint32": np.uint32, "uint64": np.uint64, "int32": np.int32}[case["as"]]) if case.get("as") in ("uint8", "uint32", "uint64", "int32") else np.array(data, dtype=float) if case.get("as") == "array" else (pd.Series(data, index=[f"c{i}" for i in range(len(data))]) if case.get("as") == "series" else data)
        lines = call("rankfrequency", PL.rankfrequency, arr, ax=ax, normalize_x=nx, normalize_y=ny, scalex=sx, scaley=sy)
        line = lines[0]
        xs, ys = [float(v) for v in line.get_xdata()], [float(v) for v in line.get_ydata()]
        srt = sorted(vals, reverse=True)
        tot = sum(vals)
        wx = [(v / tot if nx else v) * sx for v in srt]
        n = len(vals)
        wy = [sy * k / (n if ny else 1) for k in range(n)]
        if len(xs) != n or len(ys) != n:
            raise Violation("rankfrequency-length", f"{len(xs)} points drawn for {n} non-missing values")
        for k in range(n):
            if not close(xs[k], wx[k], 1e-12, 1e-15):
                raise Violation("rankfrequency-x", f"x[{k}] = {xs[k]!r}, expected {wx[k]!r} (descending values{' as frequencies' if nx else ''})")
            if not close(ys[k], wy[k], 1e-12, 1e-15):
                raise Violation("rankfrequency-y", f"y[{k}] = {ys[k]!r}, expected rank {wy[k]!r}")
    finally:
        plt.close("all")


def check_colors(case, rec):
    labels, mc, seed, which = case["labels"], case["min_count"], case["np_seed"], case["which"]
    cnt = Counter(labels)
    rare = [l for l, c in cnt.items() if mc is not None and c < mc]
    rec.note(case, len(cnt) >= 3 and bool(rare) and len(rare) < len(cnt), [which, f"min_count={mc}"])
    f = PL.labels_to_colors_hls if which == "hls" else PL.labels_to_colors_tableau
    lab = labels if case.get("as", "list") == "list" else (np.array(labels) if case["as"] == "array" else pd.Series(labels, index=list(range(len(labels)))[::-1]))
    np.random.seed(seed)
    cols = call(f"labels_to_colors_{which}", f, lab, min_count=mc)
    cols = [tuple(float(x) for x in c) for c in cols]
    if len(cols) != len(labels):
        raise Violation("colors-length", f"{len(cols)} colours for {len(labels)} labels")
    seen = {}
    for l, c in zip(labels, cols):
        if l in seen and seen[l] != c:
            raise Violation("colors-equal-labels", f"label {l!r} gets two colours {seen[l]} and {c}")
        seen[l] = c
    for l, c in seen.items():
        if l in rare:
            if c != (0.0, 0.0, 0.0):
                raise Violation("colors-rare-not-black", f"label {l!r} (count {cnt[l]} < min_count {mc}) gets {c}")
    if which == "hls":
        # distinct labels -> distinct colours: among the frequent labels, and between a frequent label and the black of a rare one
        freq = [c for l, c in seen.items() if l not in rare]
        if len(set(freq)) != len(freq) or (rare and (0.0, 0.0, 0.0) in freq):
            raise Violation("colors-hls-not-distinct", f"distinct labels share a colour: {seen}")


def check_scatter(case, rec):
    pts = case["points"]
    cnt = Counter((x, y) for x, y in pts)
    rec.note(case, len(cnt) < len(pts) and len(cnt) >= 2, [f"distinct={min(len(cnt), 6)}"])
    try:
        fig, ax = plt.subplots()
        xs, ys = [p[0] for p in pts], [p[1] for p in pts]
        if case.get("as") == "array":
            xs, ys = np.array(xs), np.array(ys)
        out = call("density_scatter", PL.density_scatter, xs, ys, ax=ax, discrete=True, sort=case.get("sort", True))
        col = out.collections[-1]
        off = [(float(a), float(b)) for a, b in col.get_offsets()]
        arr = [float(v) for v in col.get_array()]
        got = sorted(zip(off, arr))
        want = sorted(((float(x), float(y)), float(c)) for (x, y), c in cnt.items())
        if got != want:
            raise Violation("scatter-points", f"drawn (point, colour value) {got[:6]} != (distinct point, multiplicity) {want[:6]}")
    finally:
        plt.close("all")


def check_clustermap(case, rec):
    rows = case["rows"]
    n = len(rows)
    chain = case["chains"]
    da = np.array([[O.lev(r[0], s[0]) for s in rows] for r in rows], dtype=float)
    db = np.array([[O.lev(r[1], s[1]) for s in rows] for r in rows], dtype=float)
    if chain == "alpha":
        db = da
    elif chain == "beta":
        da = db
    tot = da + db if chain == "both" else da
    iu = np.triu_indices(n, 1)
    v = tot[iu]
    rec.note(case, bool((da != db).any()) and case["index"] != "default", [chain, case["index"], "meta" if case.get("meta") else "no_meta"])
    idx = {"default": None, "str": [f"t{i}" for i in range(n)], "rev": list(range(n))[::-1], "dup": [i // 2 for i in range(n)]}[case["index"]]
    df = pd.DataFrame({"cdr3a": [r[0] for r in rows], "cdr3b": [r[1] for r in rows], "epitope": [f"e{i % 2}" for i in range(n)],
                       "donor": [i % 3 for i in range(n)]}, index=idx)
    kw = {}
    if chain == "alpha":
        kw["beta_column"] = None
    elif chain == "beta":
        kw["alpha_column"] = None
    lk = dict(method=case["method"], optimal_ordering=case["optimal_ordering"])
    ck = dict(t=case["t"], criterion="distance")
    if not case.get("defaults"):
        kw["linkage_kws"] = dict(lk)
        kw["cluster_kws"] = dict(ck)
    else:
        lk, ck = dict(method="average", optimal_ordering=True), dict(t=6, criterion="distance")
    if case.get("meta"):
        kw["meta_columns"] = ["epitope", "donor"]
    before = df.copy(deep=True)
    np.random.seed(case.get("np_seed", 0))
    try:
        cg, Z, cl = call("similarity_clustermap", PL.similarity_clustermap, df, **kw)
        Zw = hc.linkage(v, **lk)
        cw = hc.fcluster(Zw, **ck)
        if not np.array_equal(np.asarray(Z), Zw):
            raise Violation("clustermap-linkage", "returned linkage differs from hierarchical clustering of the summed chain distances")
        if not np.array_equal(np.asarray(cl), cw):
            raise Violation("clustermap-clusters", f"returned clusters {list(cl)} != {list(cw)}")
        ind = list(cg.dendrogram_row.reordered_ind)
        if ind != list(hc.leaves_list(Zw)):
            raise Violation("clustermap-order", f"dendrogram order {ind} != leaves of the returned linkage {list(hc.leaves_list(Zw))}")
        d2 = np.asarray(cg.data2d, dtype=float)
        if d2.shape != (n, n):
            raise Violation("clustermap-shape", f"heat map shape {d2.shape}")
        for r in range(n):
            for c in range(n):
                if r > c:
                    w = da[ind[r], ind[c]]
                elif r < c:
                    w = db[ind[r], ind[c]]
                else:
                    w = 0.0
                if d2[r, c] != w:
                    raise Violation("clustermap-heatmap", f"cell [{r},{c}] = {d2[r, c]}, expected {'alpha' if r > c else 'beta'}-chain distance {w} "
                                                          f"between rows {ind[r]} and {ind[c]}")
        if not before.equals(df):
            raise Violation("clustermap-mutates-input", "table changed")
    finally:
        plt.close("all")


# ---------------------------------------------------------------------------
@st.composite
def aligned_seqs(draw, gaps=True, max_n=30, max_len=15):
    alpha = draw(st.sampled_from(["AC", "ACD", "ACDEF", G.AA]))
    L = draw(st.integers(1, max_len))
    n = draw(st.integers(2, max_n))
    founder = draw(st.lists(st.sampled_from(alpha), min_size=L, max_size=L))
    varpos = draw(st.lists(st.integers(0, L - 1), min_size=min(2, L), max_size=5, unique=True))
    seqs = []
    for _ in range(n):
        s = list(founder)
        for p in varpos:
            if draw(st.booleans()):
                s[p] = draw(st.sampled_from(alpha))
        seqs.append(s)
    if gaps and draw(st.booleans()):
        gp = draw(st.lists(st.integers(0, L - 1), min_size=1, max_size=3, unique=True))
        for p in gp:
            who = draw(st.lists(st.integers(1, n - 1), max_size=n - 1, unique=True))  # row 0 keeps its residue
            for w in who:
                seqs[w][p] = "-"
    return ["".join(s) for s in seqs]


@st.composite
def regex_case(draw, tier="quick"):
    return {"seqs": draw(aligned_seqs(max_n=12, max_len=10)), "salt": draw(st.integers(0, 1000))}


@st.composite
def consensus_case(draw, tier="quick"):
    return {"seqs": draw(aligned_seqs(gaps=False))}


@st.composite
def logo_case(draw, tier="quick"):
    # half of the cases pre-aligned with gap characters (every column keeps a residue): the matrix counts residues, never gaps
    return {"seqs": draw(aligned_seqs(gaps=True, max_n=15, max_len=10))}


@st.composite
def rank_case(draw, tier="quick"):
    n = draw(st.integers(1, 30))
    data = draw(st.lists(st.one_of(st.integers(1, 1000), st.sampled_from([1, 1, 2, 5]), st.none(),
                                   st.floats(0.5, 50).map(lambda v: round(v, 3))), min_size=n, max_size=n))
    if all(v is None for v in data):
        data.append(3)
    if draw(st.integers(0, 3)) == 0:
        # integer count arrays as np.bincount / value_counts deliver them, unobserved clones (zeros) included
        data = draw(st.lists(st.sampled_from([0, 0, 1, 1, 2, 3, 7, 200, 255]), min_size=max(2, n), max_size=max(2, n)))
        return {"data": data, "normalize_x": draw(st.booleans()) and sum(data) > 0, "normalize_y": draw(st.booleans()),
                "scalex": draw(st.sampled_from([1.0, 1.0, 2.0])), "scaley": draw(st.sampled_from([1.0, 3.0])),
                "as": draw(st.sampled_from(["uint8", "uint32", "uint64", "int32"]))}
    return {"data": data, "normalize_x": draw(st.booleans()), "normalize_y": draw(st.booleans()),
            "scalex": draw(st.sampled_from([1.0, 1.0, 2.0, 0.5, 1000.0])), "scaley": draw(st.sampled_from([1.0, 1.0, 3.0, 0.25])),
            "as": draw(st.sampled_from(["list", "array", "series"]))}


@st.composite
def color_case(draw, tier="quick"):
    kind = draw(st.sampled_from(["str", "int"]))
    pool = ["A", "B", "epi 1", "é", "zz", "K", "L", "M"] if kind == "str" else [1, 2, 3, 10, -4, 7, 100, 0]
    k = draw(st.integers(1, 8))
    # multiplicities by construction: rare (1-2) and frequent (3-6) labels side by side, then shuffled
    counts = [draw(st.sampled_from([1, 1, 2, 3, 4, 6])) for _ in range(k)]
    labels = list(draw(st.permutations([l for l, c in zip(pool[:k], counts) for _ in range(c)])))
    which = draw(st.sampled_from(["hls", "tableau"]))
    return {"labels": labels, "min_count": draw(st.sampled_from([None, 1, 2, 2, 3, 3])), "np_seed": draw(st.integers(0, 2 ** 32 - 1)),
            "which": which, "as": draw(st.sampled_from(["list", "array", "series"]))}


@st.composite
def scatter_case(draw, tier="quick"):
    pts = draw(st.lists(st.tuples(st.integers(0, 4), st.integers(-2, 3)), min_size=1, max_size=40))
    return {"points": [list(p) for p in pts], "sort": draw(st.booleans()), "as": draw(st.sampled_from(["list", "array"]))}


@st.composite
def clustermap_case(draw, tier="quick"):
    n = draw(st.integers(3, 12))
    fa = draw(G.clonal_family(alpha="ACDEF", max_size=n, min_size=n, founder_len=(3, 8), allow_empty=False))
    fb = draw(G.clonal_family(alpha="CASQY", max_size=n, min_size=n, founder_len=(3, 8), allow_empty=False))
    return {"rows": [[fa[i], fb[i]] for i in range(n)], "chains": draw(st.sampled_from(["both", "both", "alpha", "beta"])),
            "index": draw(st.sampled_from(["default", "str", "rev", "dup"])),
            "method": draw(st.sampled_from(["average", "single", "complete", "weighted"])),
            "optimal_ordering": draw(st.booleans()), "t": draw(st.sampled_from([1, 2, 3, 6])),
            "defaults": draw(st.integers(0, 3)) == 0, "meta": draw(st.booleans()), "np_seed": draw(st.integers(0, 10 ** 6))}


def check_large(case, rec):
    {"regex": check_regex, "consensus": check_consensus, "logo": check_logo}[case["what"]](case, rec)


def enum_large(tier):
    base = ["CASSLGQ", "CASSLGQ", "CASRLGQ", "CASSIGQ", "CAWSLGE", "CASSLGQ", "CSSSLAQ"]
    rare = ["CAYSLGK", "WASSLGQ"]
    sizes = [150, 1430, 4300] if tier == "quick" else [150, 1430, 1500, 4300, 14300, 43000]
    for r in sizes:
        yield {"what": "logo", "seqs": base, "repeat": r, "rare": rare}
        yield {"what": "regex", "seqs": base, "repeat": r, "rare": rare}
        # consensus: the majority residue wins by a margin of a few sequences out of tens of thousands
        yield {"what": "consensus", "seqs": ["CASSF", "CAWSF"], "repeat": r, "rare": ["CASSF", "CASTF", "CASSW"]}


SUBS = [
    Sub("regex", check_regex, strategy=lambda t: regex_case(t), budget=(1200, 12000)),
    Sub("consensus", check_consensus, strategy=lambda t: consensus_case(t), budget=(1200, 12000)),
    Sub("seqlogos", check_logo, strategy=lambda t: logo_case(t), budget=(160, 1600)),
    Sub("large_inputs", check_large, enum=enum_large),
    Sub("rankfrequency", check_rankfrequency, strategy=lambda t: rank_case(t), budget=(800, 8000)),
    Sub("colors", check_colors, strategy=lambda t: color_case(t), budget=(2000, 20000)),
    Sub("density_scatter", check_scatter, strategy=lambda t: scatter_case(t), budget=(800, 8000)),
    Sub("clustermap", check_clustermap, strategy=lambda t: clustermap_case(t), budget=(160, 1600)),
]
