"""C14 — distance-filtered search keeps exactly the pairs inside both radii;
nearest_neighbor_tcrdist; bundled V-gene tables."""
import os

import numpy as np
import pandas as pd
from hypothesis import strategies as st

from vlib import boot
from vlib.common import Sub, Violation, call, trip, same_multiset, O, G
from checks.nnlib import pyrepseq, nn, CUSTOM, custom_neighbours_self, custom_neighbours_cross, related_queries

import pwseqdist  # the vendored stand-in (vendor/pwseqdist) unless the real package is installed

PROPERTY = "C14"
QUICK_SCALE = 3
RULE = ("custom: amino-acid clonal families x a family of exactly symmetric custom distances with d(x,x)=0 (0.5*lev, 2*lev, 3*lev, "
        "lev+1.5*|len diff|, discrete metric, real- and integer-valued substitution-cost alignment) x k=1..3 x "
        "max_custom_distance in {inf, 0, values between realised custom distances, values between k and 2k} x engine in "
        "{symdel, symdel+seqs2, SymdelDB.lookup, hash_based, LookupDB.lookup, kdtree}. Oracle: pair reported <=> lev <= k AND "
        "custom <= maxc, reported value == custom(a, b) exactly, multiset equality. tcrdist: tables of 1-25 rows, V alleles "
        "from the bundled CSV index, CDR3 clonal families (length >= 8), arbitrary index x chain x edit_on_trimmed x max_edits x "
        "max_tcrdist, incl. draws with no qualifying pair; oracle = brute force over ordered pairs with own DP, own CSV lookup "
        "and the stand-in CDR3 distance. tables: every entry of both CSVs (square, labels, symmetric, zero diagonal, no NaN). "
        "Non-trivial (custom): some pair lies inside one radius and outside the other; (tcrdist): >= 1 candidate pair removed "
        "by the TCRdist radius or no candidate at all."
        " Also (custom): planted collections of 300-6000 and dense collections of 229-687 sequences with exact oracles by construction.")
ASSUMPTIONS = ["nearest_neighbor_tcrdist runs against the vendored stand-in for the absent optional dependency pwseqdist; "
               "agreement of the stand-in with the real package's numerics is not claimed",
               "custom distances are symmetric with d(x,x)=0, as the documented contract requires"]
EXHAUSTIVE = False

ENGINES = ["symdel", "symdel2", "symdeldb", "hash_based", "lookupdb", "kdtree", "nearest_neighbor"]
DATA = os.path.join(boot.REPO, "pyrepseq", "data")


def selftest():
    O.selftest()


def run(engine, seqs, seqs2, k, f, maxc):
    kw = dict(custom_distance=f, max_custom_distance=maxc)
    if engine == "symdel":
        return pyrepseq.symdel(list(seqs), max_edits=k, **kw)
    if engine == "nearest_neighbor":
        return pyrepseq.nearest_neighbor(list(seqs), max_edits=k, **kw)
    if engine == "hash_based":
        return pyrepseq.hash_based(list(seqs), max_edits=k, **kw)
    if engine == "kdtree":
        return pyrepseq.kdtree(list(seqs), max_edits=k, **kw)
    if engine == "symdel2":
        return pyrepseq.symdel(list(seqs), max_edits=k, seqs2=list(seqs2), **kw)
    if engine == "symdeldb":
        return nn.SymdelDB(list(seqs), k).lookup(list(seqs2), **kw)
    if engine == "lookupdb":
        return nn.LookupDB(list(seqs)).lookup(list(seqs2), max_edits=k, **kw)
    raise ValueError(engine)


def check_custom(case, rec):
    seqs, k, name = case["seqs"], case["k"], case["dist"]
    maxc = float(case["maxc"])
    cross = case["engine"] in ("symdel2", "symdeldb", "lookupdb")
    f = CUSTOM[name]
    if cross:
        seqs2 = case["seqs2"]
        want = custom_neighbours_cross(seqs2, seqs, k, name, maxc)
        levonly = custom_neighbours_cross(seqs2, seqs, k, name, float("inf"))
        # pairs within the custom radius but outside the edit radius, sharing a deletion variant region (k < lev <= 2k)
        far = any(k < O.lev(a, b) <= 2 * k and f(a, b) <= maxc for a in seqs2 for b in seqs)
    else:
        seqs2 = None
        want = custom_neighbours_self(seqs, k, name, maxc)
        levonly = custom_neighbours_self(seqs, k, name, float("inf"))
        far = any(k < O.lev(a, b) <= 2 * k and f(a, b) <= maxc for i, a in enumerate(seqs) for b in seqs[i + 1:])
    cl = [case["engine"], name, "maxc=inf" if maxc == float("inf") else "maxc=finite"]
    nt = False
    if len(want) < len(levonly):
        cl.append("inside_edit_outside_custom")
        nt = True
    if far:
        cl.append("inside_custom_outside_edit")
        nt = True
    if any(d > k for _, _, d in want):
        cl.append("custom_value_exceeds_k")
        nt = True
    rec.note(case, nt, cl)
    got = trip(call("search", run, case["engine"], seqs, seqs2, k, f, maxc))
    same_multiset("two-radii", got, [(a, b, int(d) if float(d) == int(d) else float(d)) for a, b, d in want],
                  f"engine={case['engine']} dist={name} k={k} maxc={maxc}")


def check_planted(case, rec):
    """Hundreds to thousands of sequences in one call (several k-d tree leaves, long deletion-variant buckets); exact oracle by
    construction: in a G.planted_collection all pairs within edit radius k lie inside the planted families."""
    n, k, name = case["n"], case["k"], case["dist"]
    maxc = float(case["maxc"])
    f = CUSTOM[name]
    seqs, fams = G.planted_collection(n, k, case.get("salt", 0), high=True)
    want = [(a, b, f(seqs[a], seqs[b])) for (a, b, d) in G.planted_neighbours(seqs, fams, k, O.lev) if f(seqs[a], seqs[b]) <= maxc]
    rec.note(case, True, [f"n={n}", case["engine"], name])
    got = trip(call("search", run, case["engine"], seqs, None, k, f, maxc))
    same_multiset("planted-two-radii", got, [(a, b, int(d) if float(d) == int(d) else float(d)) for a, b, d in want],
                  f"engine={case['engine']} dist={name} k={k} maxc={maxc} n={n}")


def check_dense(case, rec):
    """Dense repertoires: all single substitutions of 1-3 founders (every family member has hundreds of neighbours, many of them
    exactly on the search radius, spread over many k-d tree leaves / hash buckets). Distances are known analytically."""
    k, name = case["k"], case["dist"]
    maxc = float(case["maxc"])
    f = CUSTOM[name]
    seqs, meta = G.dense_collection(case["founders"], case.get("per_founder"), case.get("step", 1))
    want = [(a, b, f(seqs[a], seqs[b])) for (a, b, d) in G.dense_neighbours(meta, k) if f(seqs[a], seqs[b]) <= maxc]
    rec.note(case, True, [f"n={len(seqs)}", case["engine"], name, f"k={k}"])
    got = trip(call("search", run, case["engine"], seqs, None, k, f, maxc))
    same_multiset("dense-two-radii", got, [(a, b, int(d) if float(d) == int(d) else float(d)) for a, b, d in want],
                  f"engine={case['engine']} dist={name} k={k} maxc={maxc} n={len(seqs)} (all substitutions of {case['founders']} founder(s))")


def enum_dense(tier):
    yield {"founders": 2, "k": 1, "engine": "kdtree", "dist": "double", "maxc": "inf"}
    yield {"founders": 1, "k": 2, "engine": "kdtree", "dist": "unit", "maxc": "1"}
    yield {"founders": 3, "per_founder": 120, "k": 1, "engine": "symdel", "dist": "half", "maxc": "inf"}
    yield {"founders": 1, "per_founder": 60, "step": 3, "k": 1, "engine": "hash_based", "dist": "triple", "maxc": "3"}
    if tier == "thorough":
        yield {"founders": 3, "k": 2, "engine": "kdtree", "dist": "lenpen", "maxc": "inf"}
        yield {"founders": 3, "k": 2, "engine": "symdel", "dist": "double", "maxc": "2"}
        yield {"founders": 3, "k": 1, "engine": "kdtree", "dist": "blocks", "maxc": "inf"}


def enum_planted(tier):
    yield {"n": 600, "k": 1, "engine": "kdtree", "dist": "double", "maxc": "inf", "salt": 1}
    yield {"n": 900, "k": 2, "engine": "kdtree", "dist": "half", "maxc": "0.5", "salt": 2}
    yield {"n": 700, "k": 1, "engine": "symdel", "dist": "lenpen", "maxc": "inf", "salt": 3}
    yield {"n": 300, "k": 1, "engine": "hash_based", "dist": "double", "maxc": "2", "salt": 4}
    if tier == "thorough":
        yield {"n": 6000, "k": 1, "engine": "kdtree", "dist": "blocks", "maxc": "inf", "salt": 5}
        yield {"n": 5000, "k": 2, "engine": "symdel", "dist": "double", "maxc": "2", "salt": 6}


@st.composite
def custom_case(draw, tier="quick"):
    engine = draw(st.sampled_from(ENGINES))
    name = draw(st.sampled_from(sorted(CUSTOM)))
    k = draw(st.sampled_from([1, 1, 2, 2, 3]))
    small = engine in ("hash_based", "lookupdb")
    if small:
        k = min(k, 2)
    alpha = draw(st.sampled_from(["AC", "ACD", "ACDEF", G.AA]))
    seqs = draw(G.clonal_family(alpha=alpha, max_size=10 if (small and k == 2) else 20,
                                founder_len=(2, 5) if (small and k == 2) else (2, 9), max_edits=4))
    if small and k == 2:
        seqs = [s[:6] for s in seqs]
    case = {"engine": engine, "dist": name, "k": k, "seqs": seqs}
    if engine in ("symdel2", "symdeldb", "lookupdb"):
        q = draw(related_queries(seqs, alpha, max_size=8 if (small and k == 2) else 15, max_edits=4))
        if small and k == 2:
            q = [s[:6] for s in q]
        case["seqs2"] = q
    case["maxc"] = draw(st.sampled_from(["inf", "inf", "0", "0.5", "1", "1.5", "2", "2.5", "3", "4", "5.5", "6", "9"]))
    if name == "tenths":
        case["maxc"] = draw(st.sampled_from(["0.3", "0.3", "0.7", "0.8", "0.1", "0.2", "inf"]))
        if not small:
            case["k"] = draw(st.sampled_from([3, 3, 2]))
    return case


# ---------------------------------------------------------------------------
# nearest_neighbor_tcrdist
# ---------------------------------------------------------------------------
_V = {}


def vtable(chain):
    if chain not in _V:
        _V[chain] = pd.read_csv(os.path.join(DATA, f"vdists_{chain}.csv"), index_col=0)
    return _V[chain]


def trim(s, on):
    return s[3:-2] if on else s


def tcr_oracle(rows, chain, max_edits, on_trimmed, max_tcrdist):
    edit_chain = "B" if chain in ("beta", "both") else "A"
    chains = {"alpha": ["A"], "beta": ["B"], "both": ["B", "A"]}[chain]
    out, ncand = [], 0
    for i, ri in enumerate(rows):
        for j, rj in enumerate(rows):
            if i == j:
                continue
            if O.lev(trim(ri[f"CDR3{edit_chain}"], on_trimmed), trim(rj[f"CDR3{edit_chain}"], on_trimmed)) > max_edits:
                continue
            ncand += 1
            tot = 0
            for c in chains:
                t = vtable("alpha" if c == "A" else "beta")
                tot += int(t.loc[ri[f"TR{c}V"], rj[f"TR{c}V"]])
                tot += int(pwseqdist.metrics.tcrdist_cdr3(ri[f"CDR3{c}"], rj[f"CDR3{c}"], dist_weight=3, gap_penalty=12,
                                                          ntrim=3, ctrim=2, fixed_gappos=False))
            if tot <= max_tcrdist:
                out.append((i, j, tot))
    return out, ncand


def check_tcrdist(case, rec):
    rows = case["rows"]
    va, vb = list(vtable("alpha").index), list(vtable("beta").index)
    recs = []
    for r in rows:
        recs.append({"TRAV": va[r["va"] % len(va)], "CDR3A": r["a"], "TRBV": vb[r["vb"] % len(vb)], "CDR3B": r["b"],
                     "meta": r.get("meta", 0)})
    idx = {"default": None, "shifted": list(range(7, 7 + len(recs))), "str": [f"t{i}" for i in range(len(recs))],
           "dup": [i // 2 for i in range(len(recs))], "perm": list(range(len(recs)))[::-1]}[case["index"]]
    df = pd.DataFrame(recs, index=idx)
    chain = case["chain"]
    if chain == "alpha":
        df = df.drop(columns=["TRBV", "CDR3B"]) if case.get("drop_other") else df
    elif chain == "beta":
        df = df.drop(columns=["TRAV", "CDR3A"]) if case.get("drop_other") else df
    want, ncand = tcr_oracle(recs, chain, case["max_edits"], case["edit_on_trimmed"], case["max_tcrdist"])
    cl = [chain, f"index={case['index']}"]
    if ncand == 0:
        cl.append("no_candidate")
    if ncand > len(want):
        cl.append("removed_by_tcrdist_radius")
    if not want:
        cl.append("empty_result")
    rec.note(case, ncand == 0 or ncand > len(want), cl)
    before = df.copy(deep=True)
    got = call("tcrdist", pyrepseq.nearest_neighbor_tcrdist, df, chain=chain, max_edits=case["max_edits"],
               edit_on_trimmed=case["edit_on_trimmed"], max_tcrdist=case["max_tcrdist"])
    got = np.asarray(got)
    if got.size == 0:
        gl = []
    else:
        if got.ndim != 2 or got.shape[1] != 3:
            raise Violation("tcrdist-shape", f"result has shape {got.shape}")
        gl = [(int(a), int(b), int(c)) if float(c) == int(c) else (int(a), int(b), float(c)) for a, b, c in got.tolist()]
    same_multiset("tcrdist-set", gl, want, f"chain={chain} max_edits={case['max_edits']} trimmed={case['edit_on_trimmed']} max_tcrdist={case['max_tcrdist']}")
    if not before.equals(df):
        raise Violation("tcrdist-mutates-input", "input table changed")


@st.composite
def tcr_case(draw, tier="quick"):
    n = draw(st.integers(1, 25 if tier == "thorough" else 16))
    fam_a = draw(G.clonal_family(alpha=G.AA, max_size=n, min_size=n, founder_len=(2, 12), cdr3_like=True,
                                 allow_empty=False, max_edits=3))
    fam_b = draw(G.clonal_family(alpha=G.AA, max_size=n, min_size=n, founder_len=(2, 12), cdr3_like=True,
                                 allow_empty=False, max_edits=3))
    short_ok = draw(st.integers(0, 3)) == 0     # CDR3s of 4-7 residues: trimming leaves (almost) nothing to compare
    pad = (lambda s: s if len(s) >= 4 else (s + "CAWF")[:4]) if short_ok else (lambda s: s if len(s) >= 8 else (s + "CASSQETQYF")[:8])  # noqa: E731
    nva = draw(st.integers(1, 4))
    nvb = draw(st.integers(1, 4))
    pool_a = draw(st.lists(st.integers(0, 102), min_size=nva, max_size=nva))
    pool_b = draw(st.lists(st.integers(0, 141), min_size=nvb, max_size=nvb))
    rows = []
    for i in range(n):
        rows.append({"a": pad(fam_a[i]), "b": pad(fam_b[i]), "va": draw(st.sampled_from(pool_a)),
                     "vb": draw(st.sampled_from(pool_b)), "meta": i})
    return {"rows": rows, "chain": draw(st.sampled_from(["alpha", "beta", "both"])),
            "edit_on_trimmed": draw(st.booleans()), "max_edits": draw(st.sampled_from([1, 2, 2, 3])),
            "max_tcrdist": draw(st.sampled_from([0, 6, 12, 20, 20, 36, 48, 90, 400])),
            "index": draw(st.sampled_from(["default", "shifted", "str", "dup", "perm"])),
            "drop_other": draw(st.booleans())}


# ---------------------------------------------------------------------------
# bundled tables (exhaustive)
# ---------------------------------------------------------------------------

def check_table(case, rec):
    t = vtable(case["chain"])
    rec.note(case, True, [case["chain"]])
    if t.shape[0] != t.shape[1]:
        raise Violation("table-not-square", f"{case['chain']}: shape {t.shape}")
    if list(t.index) != list(t.columns):
        raise Violation("table-labels", f"{case['chain']}: row labels differ from column labels")
    if len(set(t.index)) != len(t.index):
        raise Violation("table-duplicate-label", f"{case['chain']}")
    v = t.values
    lo, hi = case["rows"]
    for i in range(lo, min(hi, v.shape[0])):
        if v[i, i] != 0:
            raise Violation("table-diagonal", f"{case['chain']}[{t.index[i]}] diagonal is {v[i, i]}")
        for j in range(v.shape[1]):
            x = v[i, j]
            if x != x:
                raise Violation("table-missing", f"{case['chain']}[{t.index[i]},{t.columns[j]}] is NaN")
            if x != v[j, i]:
                raise Violation("table-asymmetric", f"{case['chain']}[{t.index[i]},{t.columns[j]}]={x} != transpose {v[j, i]}")


def enum_tables(tier):
    for chain in ("alpha", "beta"):
        for lo in range(0, 160, 20):
            yield {"chain": chain, "rows": [lo, lo + 20]}


SUBS = [
    Sub("custom", check_custom, strategy=lambda tier: custom_case(tier), budget=(3000, 30000)),
    Sub("planted_large", check_planted, enum=enum_planted),
    Sub("dense", check_dense, enum=enum_dense),
    Sub("tcrdist", check_tcrdist, strategy=lambda tier: tcr_case(tier), budget=(800, 8000)),
    Sub("tables", check_table, enum=enum_tables),
]
