"""C02 — pc is the exact fraction of coinciding pairs; pc_n / pc_joint agree."""
import math
from collections import Counter
from fractions import Fraction

import numpy as np
import pandas as pd
from hypothesis import strategies as st

from vlib import boot
from vlib.common import Sub, Violation, call, close, O

pyrepseq = boot.import_pyrepseq()

PROPERTY = "C02"
QUICK_SCALE = 4
RULE = ("exhaustive: every multiplicity pattern (integer partition) of N=2..12 realised as str / int / float samples in a "
        "deterministic shuffle, and every pair of patterns with N1,N2<=6 under several overlap assignments for the two-sample "
        "form; random: samples up to N=200 (list / tuple / ndarray / Series with arbitrary index), tables of 1-4 columns x 2-40 "
        "rows with homogeneous column types, optional missing cells and the adversarial rows ('AB','C') vs ('A','BC'), legacy "
        "2-tuples. Oracle: literal pair counting in exact Fractions (rows equal iff equal in every column, missing == missing); "
        "metamorphic: permutation and injective relabelling invariance, 0<=pc<=1, pc == pc_n(multiplicities), pc(table[cols]) == "
        "pc_joint(table, cols), pc(a,b) == pc(b,a). Tolerance 1e-12 relative. Non-trivial: at least two distinct values each "
        "occurring >= 2 times, or a table with >= 2 columns where two rows agree in a proper non-empty subset of the columns."
        " Scale: 120,000-1,000,000 distinct strings / integers with planted repeats (exact value by construction), one and two samples.")
ASSUMPTIONS = ["cell text never contains '.' or '_' (the property's stated domain); consequently numeric columns are integer "
               "typed without missing cells (a missing cell would turn the column into floats whose text contains '.')",
               "string cells are never the empty string when missing cells are present in the same column "
               "(the property counts a missing cell as one distinct empty value)"]
TOL = 1e-12


def _same(kind, got, want, ctx):
    if not close(got, want, TOL, 1e-15):
        raise Violation(kind, f"{ctx}: got {float(got)!r}, exact value {want} = {float(want)!r}")


def realise(values, typ):
    if typ == "str":
        return [f"v{v}" for v in values]
    if typ == "int":
        return [int(v) * 3 - 5 for v in values]
    if typ == "float":
        return [v * 0.5 + 0.25 for v in values]
    raise ValueError(typ)


def contain(xs, container):
    if container == "list":
        return list(xs)
    if container == "tuple":
        t = tuple(xs)
        return t if len(t) != 2 else list(t)  # a 2-tuple means legacy paired input
    if container == "ndarray":
        return np.array(xs)
    if container == "series":
        return pd.Series(list(xs), index=[f"i{k}" for k in range(len(xs))][::-1])
    if container == "categorical":
        # converted on its own: category list and integer codes belong to this sample only
        return pd.Series(list(xs)).astype("category")
    if container == "string_dtype":
        return pd.Series([str(x) for x in xs], dtype="string")
    raise ValueError(container)


def shuffle_det(xs, salt):
    n = len(xs)
    if n < 2:
        return list(xs)
    step = next(s for s in range(salt % n + 1, 3 * n + 2) if math.gcd(s, n) == 1)
    return [xs[(i * step + salt) % n] for i in range(n)]


def check_one(case, rec):
    """one-sample pc on a flat sample given by labels (ints)."""
    labels = case["labels"]
    typ, cont = case.get("type", "str"), case.get("container", "list")
    sample = realise(labels, typ)
    want = O.pc_exact(sample)
    c = Counter(labels)
    nt = sum(1 for v in c.values() if v >= 2) >= 2
    rec.note(case, nt, [typ, cont, f"N={min(len(labels), 20)}"])
    got = call("pc", pyrepseq.pc, contain(sample, cont))
    _same("pc-value", got, want, f"pc({sample[:12]}..)")
    if not (0 <= float(got) <= 1):
        raise Violation("pc-range", f"pc={got}")
    # pc_n on the multiplicity vector
    mult = list(c.values())
    _same("pc_n-vs-pc", call("pc_n", pyrepseq.pc_n, mult), want, f"pc_n({mult})")
    narrow = next(d for d in (np.int8, np.uint8, np.int16, np.int32, np.int64) if max(mult) <= np.iinfo(d).max)
    for dt in (np.int64, np.float64, np.int32, narrow):
        arr = np.array(mult, dtype=dt)
        _same("pc_n-array", call("pc_n", pyrepseq.pc_n, arr), want, f"pc_n(array {mult})")
        _same("pc_n-array-again", call("pc_n", pyrepseq.pc_n, arr), want, f"second pc_n on the same {dt.__name__} array object")
        if arr.tolist() != [dt(x) for x in mult]:
            raise Violation("pc_n-mutates-input", f"count array changed to {arr.tolist()}")
    # permutation invariance and injective relabelling
    perm = shuffle_det(sample, case.get("salt", 1))
    _same("pc-permutation", call("pc", pyrepseq.pc, contain(perm, cont)), want, "permuted sample")
    # the same container object, edited in place, must be counted afresh
    if cont in ("list", "ndarray") and len(sample) >= 3:
        obj = contain(sample, cont)
        first = call("pc", pyrepseq.pc, obj)
        obj[0] = obj[1]
        obj[2] = obj[1]
        edited = [sample[1], sample[1], sample[1]] + list(sample[3:])
        _same("pc-after-inplace-edit", call("pc", pyrepseq.pc, obj), O.pc_exact(edited), "sample object edited in place between two calls")
    relabel = realise([(-7 * v + 3) for v in labels], typ) if typ != "str" else [f"w{v}x" for v in labels]
    _same("pc-relabel", call("pc", pyrepseq.pc, contain(relabel, cont)), want, "relabelled sample")


def check_two(case, rec):
    a, b = case["a"], case["b"]
    typ, cont = case.get("type", "str"), case.get("container", "list")
    sa, sb = realise(a, typ), realise(b, typ)
    want = O.pc_cross_exact(sa, sb)
    shared = set(a) & set(b)
    nt = len(shared) >= 1 and (len(set(a)) >= 2 or len(set(b)) >= 2) and any(Counter(a)[v] * Counter(b)[v] >= 2 for v in shared)
    rec.note(case, nt, [typ, cont])
    got = call("pc2", pyrepseq.pc, contain(sa, cont), contain(sb, cont))
    _same("pc2-value", got, want, f"pc({sa[:8]}, {sb[:8]})")
    _same("pc2-symmetry", call("pc2", pyrepseq.pc, contain(sb, cont), contain(sa, cont)), want, "swapped arguments")
    if not (0 <= float(got) <= 1):
        raise Violation("pc-range", f"pc={got}")


def check_scale(case, rec):
    """Samples of 10^5 .. 10^6 elements (a deeply sequenced repertoire): n distinct CDR3-like strings plus a few planted repeats, so the
    exact value is known without counting. Anything that identifies elements by a lossy summary (a narrow hash, a truncated or
    fixed-width key) merges some of the ~n^2/2 pairs of different strings."""
    n, typ, cont = case["n"], case["type"], case["container"]
    salt = case.get("salt", 0)
    table = str.maketrans("0123456789", "ADEGHIKLMN")
    if typ == "str":
        distinct = ["CAS" + format(i * 7919 + salt, "d").translate(table) + "F" for i in range(n)]
    else:
        distinct = [i * 2654435761 + salt for i in range(n)]          # integers beyond 32 bits that differ in the high part
    dups = case.get("dups", [])                 # [(index, extra copies), ...]
    extra = [distinct[i % n] for i, c in dups for _ in range(c)]
    sample = distinct + extra
    N = len(sample)
    mult = Counter()
    for i, c in dups:
        mult[i % n] += c
    want = Fraction(sum((c + 1) * c for c in mult.values()), N * (N - 1))
    rec.note(case, True, [typ, cont, f"n~1e{len(str(n)) - 1}", "two" if case.get("two") else "one"])
    if case.get("two"):
        other = [("CAW" + s[3:]) if typ == "str" else s + 1 for s in distinct[: n // 2]] + [distinct[i % n] for i, _ in dups]
        want2 = Fraction(sum(mult[i % n] + 1 for i, _ in dups), N * len(other))
        got2 = call("pc2", pyrepseq.pc, contain(sample, cont), contain(other, cont))
        _same("pc2-value-at-scale", got2, want2, f"two samples of {N} and {len(other)} {typ} elements sharing {len(dups)} values")
        return
    got = call("pc", pyrepseq.pc, contain(sample, cont))
    _same("pc-value-at-scale", got, want, f"{n} distinct {typ} elements plus planted repeats {dups}")


def enum_scale(tier):
    for j, n in enumerate([120000, 250000] if tier == "quick" else [120000, 250000, 500000, 1000000]):
        yield {"n": n, "type": "str", "container": ["ndarray", "list"][j % 2], "dups": [], "salt": j}
        yield {"n": n, "type": "str", "container": ["list", "series"][j % 2], "dups": [[5, 1], [n - 1, 2], [n // 2, 1]], "salt": j + 10}
        yield {"n": n, "type": "int", "container": "ndarray", "dups": [[3, 1]], "salt": j}
        yield {"n": n, "type": "str", "container": "list", "dups": [[7, 1], [n - 3, 1]], "two": True, "salt": j + 20}


# ---------------------------------------------------------------------------
# tables
# ---------------------------------------------------------------------------

def build_table(case):
    cols = case["columns"]            # list of {"name", "type"}
    rows = case["rows"]               # list of lists; None = missing cell
    data = {}
    for ci, col in enumerate(cols):
        vals = []
        for r in rows:
            v = r[ci]
            if v is None:
                vals.append(None if col["type"] == "str" else np.nan)
            elif col["type"] == "str":
                vals.append(str(v))
            else:
                vals.append(int(v) + col.get("base", 0))     # ids that differ only in their last digit(s)
        # a numeric column has ONE dtype across both tables of a two-table case
        allrows = list(case["rows"]) + list(case.get("rows2", [])) + list(case.get("rows1", []))
        if col["type"] == "int" and any(r[ci] is None for r in allrows):
            data[col["name"]] = pd.Series(vals, dtype="float64")
        elif col["type"] == "int":
            data[col["name"]] = pd.Series(vals, dtype="int64")
        else:
            data[col["name"]] = pd.Series(vals, dtype=object)
    df = pd.DataFrame(data)
    idx = case.get("index", "default")
    if idx == "str":
        df.index = [f"r{i}" for i in range(len(df))]
    elif idx == "rev":
        df.index = list(range(len(df)))[::-1]
    return df


def row_keys(case, rows=None):
    rows = case["rows"] if rows is None else rows
    return [tuple(("<missing>",) if v is None else (case["columns"][ci]["type"], v if case["columns"][ci]["type"] == "str" else int(v))
                  for ci, v in enumerate(r)) for r in rows]


def check_table(case, rec):
    df = build_table(case)
    keys = row_keys(case)
    want = O.pc_exact(keys)
    ncol = len(case["columns"])
    partial = False
    if ncol >= 2:
        for i in range(len(keys)):
            for j in range(i + 1, len(keys)):
                agree = sum(1 for x, y in zip(keys[i], keys[j]) if x == y)
                if 0 < agree < ncol:
                    partial = True
                    break
            if partial:
                break
    has_missing = any(v is None for r in case["rows"] for v in r)
    cnt = Counter(keys)
    nt = partial or sum(1 for v in cnt.values() if v >= 2) >= 2
    rec.note(case, nt, [f"cols={ncol}", "missing" if has_missing else "complete", "partial_agreement" if partial else "no_partial"])
    names = [c["name"] for c in case["columns"]]
    before = df.copy(deep=True)
    got = call("pc-table", pyrepseq.pc, df)
    _same("pc-table-value", got, want, f"pc(table {case['rows'][:6]})")
    gj = call("pc_joint", pyrepseq.pc_joint, df, names)
    _same("pc_joint-vs-pc", gj, want, f"pc_joint(table, {names})")
    if ncol >= 2:
        sub = names[:-1]
        want_sub = O.pc_exact([k[:-1] for k in keys])
        _same("pc_joint-subset", call("pc_joint", pyrepseq.pc_joint, df, sub), want_sub, f"pc_joint(table, {sub})")
        _same("pc-subset", call("pc-table", pyrepseq.pc, df[sub]), want_sub, f"pc(table[{sub}])")
    if "rows2" in case:
        c2 = dict(case)
        c2["rows"] = case["rows2"]
        c2["rows1"] = case["rows"]
        df2 = build_table(c2)
        if case.get("permute_cols2") and ncol >= 2:
            # the second table stores the same columns in another order; `on` (and row identity) is by column NAME
            df2 = df2[list(df2.columns)[::-1]]
        keys2 = row_keys(case, case["rows2"])
        want2 = O.pc_cross_exact(keys, keys2)
        if not case.get("permute_cols2"):
            _same("pc-table-cross", call("pc-table2", pyrepseq.pc, df, df2), want2, "two tables")
        _same("pc_joint-cross", call("pc_joint2", pyrepseq.pc_joint, df, names, df2), want2, "pc_joint two tables")
    if not before.equals(df):
        raise Violation("pc-mutates-input", "table changed by pc / pc_joint")
    if ncol == 2 and all(c["type"] == "str" for c in case["columns"]) and not has_missing:
        # legacy (alpha, beta) tuple input
        tup = (list(df[names[0]]), list(df[names[1]]))
        _same("pc-legacy-tuple", call("pc-tuple", pyrepseq.pc, tup), want, "legacy 2-tuple input")
        # the two chains as iterables of other kinds: paired by position, whatever labels a Series carries
        a, b = tup
        n = len(a)
        forms = [(np.array(a), np.array(b)), (pd.Series(a, index=range(n)), pd.Series(b, index=range(n, 2 * n))),
                 (pd.Series(a, index=[f"r{i}" for i in range(n)]), list(b)), (pd.Series(a, index=range(n)[::-1]), pd.Series(b, index=range(n)))]
        form = forms[(n + len(a[0])) % len(forms)]
        _same("pc-legacy-tuple", call("pc-tuple", pyrepseq.pc, form), want,
              f"legacy 2-tuple of {type(form[0]).__name__} / {type(form[1]).__name__} with unrelated index labels")


CELL_STR = ["A", "B", "AB", "BC", "C", "ABC", "CAS", "CASS", "x y", "é", "Ab", "aB", "1", "01", "nan", "None"]


@st.composite
def table_case(draw, tier="quick"):
    ncol = draw(st.integers(1, 4))
    cols = [{"name": ["TRAV", "CDR3A", "f3", "f4"][i], "type": draw(st.sampled_from(["str", "str", "int"]))} for i in range(ncol)]
    for c in cols:
        if c["type"] == "int" and draw(st.booleans()):
            c["base"] = draw(st.sampled_from([30000000, 10 ** 9, 2 ** 31, 2 ** 53 - 64, 10 ** 15]))
    nrows = draw(st.integers(2, 40))
    missing = draw(st.booleans())
    pool_size = draw(st.integers(1, 5))

    def cell(t):
        # missing cells only in text columns: a numeric column with a missing cell becomes float64 in pandas and
        # its cell text ("0.0") then contains the join character '.', which the property's domain excludes
        if missing and t == "str" and draw(st.integers(0, 4)) == 0:
            return None
        if t == "str":
            return draw(st.sampled_from(CELL_STR[:max(2, pool_size * 3)]))
        return draw(st.integers(0, pool_size))
    base = [[cell(c["type"]) for c in cols] for _ in range(draw(st.integers(1, 6)))]
    rows = []
    for _ in range(nrows):
        r = list(draw(st.sampled_from(base)))
        if draw(st.booleans()):
            ci = draw(st.integers(0, ncol - 1))
            r[ci] = cell(cols[ci]["type"])
        rows.append(r)
    case = {"columns": cols, "rows": rows, "index": draw(st.sampled_from(["default", "str", "rev"]))}
    if draw(st.booleans()):
        n2 = draw(st.integers(1, 20))
        rows2 = []
        for _ in range(n2):
            r = list(draw(st.sampled_from(base + rows[:3])))
            rows2.append(r)
        case["rows2"] = rows2
        case["permute_cols2"] = draw(st.booleans())
    return case


def enum_adversarial(tier):
    # rows that coincide only if the separator is dropped or mis-placed
    yield {"columns": [{"name": "TRAV", "type": "str"}, {"name": "CDR3A", "type": "str"}],
           "rows": [["AB", "C"], ["A", "BC"], ["AB", "C"], ["A", "BC"], ["ABC", "x y"]], "index": "default"}
    yield {"columns": [{"name": "a", "type": "str"}, {"name": "b", "type": "str"}, {"name": "c", "type": "str"}],
           "rows": [["A", "B", "C"], ["AB", "C", "A"], ["A", "BC", "A"], ["A", "B", "C"], ["AB", "C", "A"]], "index": "str"}
    yield {"columns": [{"name": "a", "type": "int"}, {"name": "b", "type": "int"}],
           "rows": [[1, 11], [11, 1], [1, 11], [11, 1], [1, 1]], "index": "rev"}
    yield {"columns": [{"name": "a", "type": "str"}, {"name": "b", "type": "int"}],
           "rows": [["1", 1], ["1", 1], ["11", 1], ["1", 11], [None, 1], [None, 1], ["1", 111]], "index": "default"}
    yield {"columns": [{"name": "a", "type": "str"}, {"name": "b", "type": "str"}],
           "rows": [[None, "A"], ["A", None], [None, "A"], ["A", None], [None, None], [None, None]], "index": "default",
           "rows2": [[None, "A"], ["A", "A"], [None, None]]}


def enum_patterns(tier):
    top = 10 if tier == "quick" else 13
    for N in range(2, top + 1):
        for p in O.partitions(N):
            labels = [i for i, m in enumerate(p) for _ in range(m)]
            labels = shuffle_det(labels, N + len(p))
            typ = ["str", "int", "float"][(N + len(p)) % 3]
            cont = ["list", "ndarray", "series", "tuple"][(N + p[0]) % 4]
            yield {"labels": labels, "type": typ, "container": cont, "salt": N}


def enum_pairs(tier):
    top = 5 if tier == "quick" else 6
    k = 0
    for N1 in range(1, top + 1):
        for p1 in O.partitions(N1):
            for N2 in range(1, top + 1):
                for p2 in O.partitions(N2):
                    a = [i for i, m in enumerate(p1) for _ in range(m)]
                    for shift in (0, 1, len(p1)):
                        b = [i + shift for i, m in enumerate(p2) for _ in range(m)]
                        k += 1
                        yield {"a": shuffle_det(a, k), "b": shuffle_det(b, k + 1),
                               "type": ["str", "int", "float"][k % 3], "container": ["list", "ndarray", "series"][k % 3]}


@st.composite
def sample_case(draw, tier="quick"):
    nvals = draw(st.integers(1, 12))
    n = draw(st.integers(2, 200))
    labels = draw(st.lists(st.integers(0, nvals), min_size=n, max_size=n))
    return {"labels": labels, "type": draw(st.sampled_from(["str", "int", "float"])),
            "container": draw(st.sampled_from(["list", "tuple", "ndarray", "series", "categorical"])), "salt": draw(st.integers(0, 100))}


@st.composite
def two_case(draw, tier="quick"):
    nvals = draw(st.integers(1, 8))
    a = draw(st.lists(st.integers(0, nvals), min_size=1, max_size=60))
    b = draw(st.lists(st.integers(0, nvals + 2), min_size=1, max_size=60))
    if draw(st.integers(0, 3)) == 0:
        # a second sample far larger than the first has distinct values (and the other way round)
        a = a[: draw(st.integers(1, 3))]
        b = (b * 40)[: draw(st.integers(100, 400))]
        if draw(st.booleans()):
            a, b = b, a
    return {"a": a, "b": b, "type": draw(st.sampled_from(["str", "int", "float"])),
            "container": draw(st.sampled_from(["list", "ndarray", "series", "categorical", "categorical"]))}


SUBS = [
    Sub("patterns_exhaustive", check_one, enum=enum_patterns),
    Sub("pairs_exhaustive", check_two, enum=enum_pairs),
    Sub("sample_random", check_one, strategy=lambda t: sample_case(t), budget=(1500, 15000)),
    Sub("two_random", check_two, strategy=lambda t: two_case(t), budget=(1500, 15000)),
    Sub("scale", check_scale, enum=enum_scale),
    Sub("table_adversarial", check_table, enum=enum_adversarial),
    Sub("table_random", check_table, strategy=lambda t: table_case(t), budget=(1500, 15000)),
]
