"""C06 — pc and its variance estimator are unbiased under multinomial sampling (exact rational enumeration)."""
import math
from fractions import Fraction

import numpy as np
from hypothesis import strategies as st

from vlib import boot
from vlib.common import Sub, Violation, call, close, O

pyrepseq = boot.import_pyrepseq()

PROPERTY = "C06"
QUICK_SCALE = 4
RULE = ("Hypothesis draws (N, K, p) with p a rational point of the simplex (positive integer weights / their sum) and, for two "
        "samples, (N1, N2, K, p, q); for each draw EVERY count vector (composition of N into K parts) is enumerated and the "
        "expectation sum_n multinomial(n; p) f(n) is evaluated exactly: (i) the real pc_n / varpc_n are called on dtype=object "
        "arrays of Fractions so E[pc_n] == sum p_i^2 and E[varpc_n] == E[pc_n^2] - E[pc_n]^2 (N >= 4) are checked with ==; "
        "(ii) the same with ordinary integer arrays and with pc(sample) / pc(a, b) on materialised samples (floats converted "
        "exactly, tolerance 1e-10); (iii) stdpc_n == sqrt(varpc_n), stdpc(sample) == stdpc_n(counts). A fixed grid of (N, K) "
        "incl. K=2 up to N=120 and K=3 up to N=30 is enumerated at fixed rational points as well; (iv) sizes beyond enumeration "
        "(counts up to 2^31 in int32/uint32/int64/uint64/float64 arrays, lists, Series): unbiasedness at fixed N determines the "
        "estimator uniquely (complete family), so pc_n / varpc_n must equal the closed-form U-statistics computed here in exact "
        "integers from falling factorials. Non-trivial: K >= 2, p not "
        "uniform, N >= 4. Distinct = distinct (N, K, weights).")
ASSUMPTIONS = ["each (N, K, p) is an exact identity check at one rational point; by Schwartz-Zippel a wrong polynomial survives a "
               "random point with probability <= degree/|range|, and hundreds of points are drawn",
               "general-N algebra is argued in DESIGN.md, not machine-checked"]


BUFFERS = {}


def probs(weights):
    s = sum(weights)
    return [Fraction(w, s) for w in weights]


def multinomial_prob(counts, p):
    r = Fraction(O.multinomial_coef(counts))
    for c, pi in zip(counts, p):
        r *= pi ** c
    return r


def frac_array(counts):
    a = np.empty(len(counts), dtype=object)
    for i, c in enumerate(counts):
        a[i] = Fraction(c)
    return a


def exact_of(v, what, counts):
    """Exact rational value of a returned number; a non-finite value for a defined estimate (N >= 2 resp. N >= 4) is a violation."""
    if isinstance(v, Fraction):
        return v
    try:
        f = float(v)
    except (TypeError, ValueError):
        raise Violation(f"{what}-not-a-number", f"{what}({counts}) returned {v!r}")
    if not math.isfinite(f):
        raise Violation(f"{what}-not-finite", f"{what}({str(counts)[:80]}) = {v!r} although the estimate is defined")
    return Fraction(f)          # the exact value of the returned float (whatever float type it came as)


def unbiased_pc(counts):
    """THE unbiased estimator of sum p_i^2 for N draws (unique: the multinomial family is complete), as an exact Fraction."""
    N = sum(counts)
    return Fraction(sum(c * (c - 1) for c in counts), N * (N - 1))


def unbiased_var(counts):
    """THE unbiased estimator of Var[pc_hat] = E[pc_hat^2] - (sum p_i^2)^2, derived here from falling factorials and not from the
    library's formula: (sum p_i^2)^2 = sum_i p_i^4 + sum_{i != j} p_i^2 p_j^2 is estimated without bias by
    [sum_i n_i^(4) + (sum_i n_i^(2))^2 - sum_i (n_i^(2))^2] / N^(4), with x^(r) the falling factorial."""
    N = sum(counts)
    f2 = [c * (c - 1) for c in counts]
    f4 = [c * (c - 1) * (c - 2) * (c - 3) for c in counts]
    n4 = N * (N - 1) * (N - 2) * (N - 3)
    sq = Fraction(sum(f4) + sum(f2) ** 2 - sum(x * x for x in f2), n4)
    return unbiased_pc(counts) ** 2 - sq


def check_large(case, rec):
    """Sample sizes far beyond what can be enumerated (clone sizes of deeply sequenced repertoires: 10^5 .. 10^9 reads). Unbiasedness
    for every p at fixed N determines the estimator uniquely, so the returned float must be the closed form above."""
    counts = case["counts"]
    if "long" in case:
        # a count vector with very many entries (one per clonotype of a deep repertoire), generated from a few numbers
        n, a, b = case["long"]
        counts = [1 + (i * a) % b for i in range(n)]
    N = sum(counts)
    dt = {"int64": np.int64, "uint64": np.uint64, "int32": np.int32, "uint32": np.uint32, "float64": np.float64}[case["dtype"]]
    rec.note(case, len(counts) >= 2 and (max(counts) >= 2 ** 21 or len(counts) > 65536), [case["dtype"], f"N~1e{len(str(N)) - 1}", case["container"], "long" if "long" in case else "short"])
    arr = np.array(counts, dtype=dt)
    if case["container"] == "list":
        arr = [int(c) for c in counts]
    elif case["container"] == "series":
        import pandas as pd
        arr = pd.Series(arr, index=[f"clone{i}" for i in range(len(counts))])
    want = unbiased_pc(counts)
    got = exact_of(call("pc_n", pyrepseq.pc_n, arr), "pc_n", counts)
    if not close(got, want, 1e-11):
        raise Violation("pc_n-large-counts", f"pc_n({counts[:8]}{'..' if len(counts) > 8 else ''} ({len(counts)} entries), {case['dtype']}) = {float(got)!r}, unbiased estimator = {float(want)!r}")
    if N >= 4:
        wv = unbiased_var(counts)
        gv = exact_of(call("varpc_n", pyrepseq.varpc_n, arr), "varpc_n", counts)
        # float64 evaluation of a difference of terms of size ~pc^2: absolute error a few ulp of pc^2, far below any wrap-around
        tol = Fraction(1, 10 ** 9) * abs(wv) + Fraction(1, 10 ** 12) * want * want + Fraction(1, 10 ** 300)
        if abs(gv - wv) > tol:
            raise Violation("varpc_n-large-counts", f"varpc_n({counts[:8]}{'..' if len(counts) > 8 else ''} ({len(counts)} entries), {case['dtype']}) = {float(gv)!r}, unbiased estimator = {float(wv)!r}")
        sd_raw = call("stdpc_n", pyrepseq.stdpc_n, arr)
        if gv > 0:                       # an unbiased variance estimate may be <= 0; its root is then undefined, not wrong
            sd = exact_of(sd_raw, "stdpc_n", counts)
            if not close(float(sd), math.sqrt(float(gv)), 1e-9):
                raise Violation("stdpc_n-not-sqrt", f"stdpc_n({counts}) = {float(sd)!r}, sqrt(varpc_n) = {math.sqrt(float(gv))!r}")


def check_one(case, rec):
    N, w = case["N"], case["weights"]
    K = len(w)
    p = probs(w)
    nt = K >= 2 and len(set(w)) > 1 and N >= 4
    rec.note(case, nt, [f"K={K}", f"N={'<4' if N < 4 else ('4-10' if N <= 10 else '>10')}"])
    p2 = sum(x * x for x in p)
    e_pc = Fraction(0)
    e_pc2 = Fraction(0)
    e_var = Fraction(0)
    e_pc_float = Fraction(0)
    e_var_float = Fraction(0)
    total = Fraction(0)
    user = case.get("user_path", True)
    for counts in O.compositions(N, K):
        pr = multinomial_prob(counts, p)
        total += pr
        fa = frac_array(counts)
        v = exact_of(call("pc_n", pyrepseq.pc_n, fa), "pc_n", counts)
        e_pc += pr * v
        e_pc2 += pr * v * v
        if N >= 4:
            vv = call("varpc_n", pyrepseq.varpc_n, fa)
            e_var += pr * exact_of(vv, "varpc_n", counts)
        if user:
            fits = [d for d in (np.int8, np.uint8, np.int16, np.int32, np.int64) if N <= np.iinfo(d).max]
            ia = np.array(counts, dtype=fits[(sum(counts[:1]) + len(fits) + K) % len(fits)])
            nz = ia[ia > 0]
            fv = float(call("pc_n", pyrepseq.pc_n, ia))
            e_pc_float += pr * exact_of(fv, "pc_n", counts)
            if not close(fv, v, 1e-12):
                raise Violation("pc_n-int-vs-exact", f"pc_n({counts}) = {fv!r}, exact {v}")
            if N >= 4:
                # the SAME float64 count array goes through varpc_n, stdpc_n and pc_n one after the other
                f64 = np.array(counts, dtype=np.float64)
                v64 = float(call("varpc_n", pyrepseq.varpc_n, f64))
                s64 = float(call("stdpc_n", pyrepseq.stdpc_n, f64))
                p64 = float(call("pc_n", pyrepseq.pc_n, f64))
                if f64.tolist() != [float(c) for c in counts]:
                    raise Violation("counts-mutated", f"float64 count array {counts} changed to {f64.tolist()}")
                if not close(p64, v, 1e-12) or (v64 >= 0 and not close(s64, math.sqrt(v64), 1e-12)):
                    raise Violation("reused-count-array", f"counts={counts}: pc_n={p64!r} (exact {v}), varpc_n={v64!r}, stdpc_n={s64!r} on one array object")
                fvar = float(call("varpc_n", pyrepseq.varpc_n, ia))
                e_var_float += pr * exact_of(fvar, "varpc_n", counts)
                sd = call("stdpc_n", pyrepseq.stdpc_n, ia)
                sd = float(sd)
                if fvar >= 0:
                    if not close(sd, math.sqrt(fvar), 1e-12):
                        raise Violation("stdpc_n-not-sqrt", f"stdpc_n({counts}) = {sd!r}, sqrt(varpc_n) = {math.sqrt(fvar)!r}")
                elif not math.isnan(sd):
                    raise Violation("stdpc_n-negative-variance", f"stdpc_n({counts}) = {sd!r} though varpc_n = {fvar!r} < 0")
                if case.get("samples", False):
                    fresh = [label(i, "prefix" if N % 2 else "suffix_digits") for i, c in enumerate(counts) for _ in range(c)]
                    fresh = fresh[::2] + fresh[1::2]
                    # one buffer object per N, refilled in place for every count vector (as a simulation loop would do)
                    sample = BUFFERS.setdefault(N, list(fresh))
                    sample[:] = fresh
                    ps = float(call("pc", pyrepseq.pc, sample))
                    if not close(ps, v, 1e-12):
                        raise Violation("pc-sample-vs-pc_n", f"pc(sample of {counts}) = {ps!r}, exact {v}")
                    if N % 3 == 0 and K >= 2:
                        # the same sample as a table: categories are whole rows; the second column has more distinct values
                        # than the first, and the rows arrive interleaved
                        import pandas as pd
                        rows = [("xy"[i // 3 % 2] + "z" * (i // 6), "pqr"[i % 3]) for i, c in enumerate(counts) for _ in range(c)]
                        rows = rows[::2] + rows[1::2]
                        pt = float(call("pc", pyrepseq.pc, pd.DataFrame(rows, columns=["TRBV", "CDR3B"])))
                        if not close(pt, v, 1e-12):
                            raise Violation("pc-table-sample-vs-pc_n", f"pc(table of rows with counts {counts}) = {pt!r}, exact {v}")
                    ss = float(call("stdpc", pyrepseq.stdpc, sample))
                    sdn = float(call("stdpc_n", pyrepseq.stdpc_n, nz))
                    if not close(ss, sdn, 1e-9):
                        raise Violation("stdpc-vs-stdpc_n", f"stdpc(sample of {counts}) = {ss!r}, stdpc_n(counts) = {sdn!r}")
    if total != 1:
        raise RuntimeError("harness: multinomial probabilities do not sum to one")
    if e_pc != p2:
        raise Violation("pc-biased", f"N={N} p={w}: E[pc_n] = {e_pc} != sum p^2 = {p2}")
    if N >= 4:
        true_var = e_pc2 - e_pc * e_pc
        if e_var != true_var:
            raise Violation("varpc-biased", f"N={N} p={w}: E[varpc_n] = {e_var} ({float(e_var)!r}) != Var[pc] = {true_var} ({float(true_var)!r})")
    if user:
        if not close(e_pc_float, p2, 1e-10, 1e-13):
            raise Violation("pc-biased-float", f"N={N} p={w}: E[pc_n] = {float(e_pc_float)!r} != {float(p2)!r}")
        if N >= 4:
            true_var = e_pc2 - e_pc * e_pc
            if not close(e_var_float, true_var, 1e-8, 1e-13):
                raise Violation("varpc-biased-float", f"N={N} p={w}: E[varpc_n] = {float(e_var_float)!r} != {float(true_var)!r}")


def label(i, style):
    """Category labels: ints, equal-width strings, or a prefix chain of growing width ('CA', 'CAS', 'CASS', ...) so that
    any width-truncating conversion of one sample makes distinct categories collide."""
    if style == "int":
        return i * 10 + 1
    if style == "prefix":
        return "CASSLGQAYEQYF"[: i + 2]
    if style == "suffix_digits":
        return "c1" + "0" * i
    if style == "table_rows":
        # two-column rows whose texts run into each other when joined without a separator: V1|11C, V11|1C, V111|C
        return ("V" + "1" * (i + 1), "1" * (3 - i) + "C")
    return f"cat{i}"


def check_two(case, rec):
    N1, N2, wp, wq = case["N1"], case["N2"], case["p"], case["q"]
    K = len(wp)
    p, q = probs(wp), probs(wq)
    style = case.get("labels", "int")
    rec.note(case, K >= 2 and (len(set(wp)) > 1 or len(set(wq)) > 1), [f"K={K}", f"labels={style}", case.get("container", "list")])
    want = sum(a * b for a, b in zip(p, q))
    e = Fraction(0)
    for c1 in O.compositions(N1, K):
        pr1 = multinomial_prob(c1, p)
        s1 = [label(i, style) for i, c in enumerate(c1) for _ in range(c)]
        for c2 in O.compositions(N2, K):
            pr2 = multinomial_prob(c2, q)
            s2 = [label(i, style) for i, c in enumerate(c2) for _ in range(c)]
            if case.get("order") == "reversed":
                s2 = s2[::-1]                   # the shared labels first appear in a different order in the two samples
            elif case.get("order") == "interleaved":
                s1 = s1[::2] + s1[1::2]
                s2 = s2[1::2] + s2[::2]
            if style == "table_rows":
                import pandas as pd
                a1 = pd.DataFrame(s1, columns=["TRBV", "CDR3B"])
                a2 = pd.DataFrame(s2, columns=["TRBV", "CDR3B"])
                v = float(call("pc2", pyrepseq.pc, a1, a2))
            elif case.get("container", "list") != "list":
                import pandas as pd
                kind = case["container"]
                if kind == "categorical":      # each sample converted on its own: the two category lists (and codes) differ
                    o1, o2 = pd.Series(s1).astype("category"), pd.Series(s2).astype("category")
                elif kind == "series":
                    o1, o2 = pd.Series(s1, index=range(len(s1), 0, -1)), pd.Series(s2, index=[f"b{i}" for i in range(len(s2))])
                else:
                    o1, o2 = np.array(s1), np.array(s2)
                v = float(call("pc2", pyrepseq.pc, o1, o2))
            else:
                v = float(call("pc2", pyrepseq.pc, s1, s2))
            exact = Fraction(sum(a * b for a, b in zip(c1, c2)), N1 * N2)
            if not close(v, exact, 1e-12):
                raise Violation("pc2-value", f"pc({s1},{s2}) = {v!r}, exact {exact}")
            e += pr1 * pr2 * exact_of(v, "pc2", (c1, c2))
    if not close(e, want, 1e-10, 1e-13):
        raise Violation("pc2-biased", f"N1={N1} N2={N2} p={wp} q={wq}: E[pc(a,b)] = {float(e)!r} != sum p_i q_i = {float(want)!r}")


@st.composite
def one_case(draw, tier="quick"):
    K = draw(st.integers(1, 4 if tier == "quick" else 5))
    nmax = {1: 30, 2: 40, 3: 16, 4: 10, 5: 9}[K] if tier == "quick" else {1: 40, 2: 80, 3: 24, 4: 14, 5: 11}[K]
    N = draw(st.integers(2, nmax))
    w = draw(st.lists(st.integers(1, 30), min_size=K, max_size=K))
    return {"N": N, "weights": w, "user_path": True, "samples": draw(st.booleans()) and N <= 12}


@st.composite
def two_case(draw, tier="quick"):
    K = draw(st.integers(1, 3))
    top = 6 if K < 3 else 5
    return {"N1": draw(st.integers(1, top)), "N2": draw(st.integers(1, top)),
            "p": draw(st.lists(st.integers(1, 12), min_size=K, max_size=K)),
            "q": draw(st.lists(st.integers(1, 12), min_size=K, max_size=K)),
            "labels": draw(st.sampled_from(["int", "prefix", "prefix", "suffix_digits", "equal_width", "table_rows"])),
            "order": draw(st.sampled_from(["sorted", "reversed", "interleaved"])),
            "container": draw(st.sampled_from(["list", "list", "categorical", "series", "ndarray"]))}


@st.composite
def large_case(draw, tier="quick"):
    if draw(st.integers(0, 9)) == 0:
        return {"counts": [], "long": [draw(st.sampled_from([65535, 65536, 65537, 70000, 131073, 300000])), draw(st.integers(1, 97)), draw(st.sampled_from([2, 7, 50, 1000, 2 ** 20]))],
                "dtype": draw(st.sampled_from(["int64", "int32", "uint32", "float64"])), "container": draw(st.sampled_from(["ndarray", "list", "series"]))}
    K = draw(st.integers(1, 6))
    big = st.one_of(st.integers(2 ** 15, 2 ** 17), st.integers(2 ** 20, 2 ** 24), st.integers(2 ** 30, 2 ** 31 - 1),
                    st.sampled_from([46340, 46341, 65535, 65536, 2097151, 2097152, 2097153, 3037000499 // 1000, 2 ** 31 - 1]))
    counts = [draw(big) if draw(st.integers(0, 2)) else draw(st.integers(0, 9)) for _ in range(K)]
    if sum(counts) < 4:
        counts[0] += 2 ** 21
    dtype = draw(st.sampled_from(["int64", "int64", "uint64", "uint32", "int32", "float64"]))
    if dtype == "int32":
        counts = [min(c, 2 ** 31 - 1) for c in counts]
    return {"counts": counts, "dtype": dtype, "container": draw(st.sampled_from(["ndarray", "ndarray", "list", "series"]))}


def enum_grid(tier):
    # sizes "beyond the range" that stay exactly enumerable
    for N in ([4, 5, 6, 7, 17, 50, 120] if tier == "quick" else list(range(2, 60)) + [90, 120, 200]):
        yield {"N": N, "weights": [3, 7], "user_path": N <= 60}
        yield {"N": N, "weights": [1, 1], "user_path": False}
    for N in ([4, 9, 30] if tier == "quick" else list(range(4, 31, 2)) + [40]):
        yield {"N": N, "weights": [2, 3, 11], "user_path": N <= 12}
    for N in ([4, 8] if tier == "quick" else [4, 6, 8, 10, 12, 14]):
        yield {"N": N, "weights": [1, 2, 4, 9], "user_path": False}
    if tier == "thorough":
        for N in (4, 6, 8, 10):
            yield {"N": N, "weights": [1, 2, 3, 5, 8], "user_path": False}


SUBS = [
    Sub("grid", check_one, enum=enum_grid),
    Sub("one_sample", check_one, strategy=lambda t: one_case(t), budget=(600, 6000)),
    Sub("two_sample", check_two, strategy=lambda t: two_case(t), budget=(300, 3000)),
    Sub("large_counts", check_large, strategy=lambda t: large_case(t), budget=(1500, 15000)),
]
