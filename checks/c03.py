"""C03 — two-collection search and reusable database objects."""
import copy

from hypothesis import strategies as st
from hypothesis.stateful import RuleBasedStateMachine, initialize, rule

from vlib.common import Sub, Violation, call, trip, same_multiset, O, G
from checks.nnlib import pyrepseq, nn, related_queries, hashable_ok, CUSTOM, custom_neighbours_cross

PROPERTY = "C03"
QUICK_SCALE = 3
RULE = ("function level: (reference, query) pairs from clonal families with overlapping content, duplicates on either "
        "side, sizes 1..40 x 1..40 incl. more queries than references, k=1..3, through symdel(seqs2=), "
        "nearest_neighbor(seqs2=), SymdelDB.lookup and LookupDB.lookup (k<=2); exhaustive: every string <=L over ACD as "
        "reference and as query list. History level: rule-based state machine building one SymdelDB and one LookupDB and "
        "issuing up to 12 lookups (Levenshtein, Hamming and custom-distance lookups interleaved on the same object). Oracle: brute-force (q, r, d) with own DP, multiset equality; after every lookup the "
        "answer must equal a fresh one-shot "
        "search (private attributes of the database objects are not inspected). Non-trivial: some true hit has q == r numerically, or d = 0, or is an indel hit; for histories >= 3 "
        "lookups with >= 2 different query lists.")
ASSUMPTIONS = ["LookupDB only enumerates edits over the 20 amino-acid letters, so its cases use amino-acid strings",
               "query/reference orientation per the property: triplet = (query position, reference position, d)"]


def selftest():
    O.selftest()


def run_engine(engine, refs, queries, k, same_object=False, containers=None):
    if containers and not same_object:
        # "collections": the same strings as a tuple, array or Series with any index labels (positions stay ordinal)
        r, q = G.materialise(refs, containers[0], 3), G.materialise(queries, containers[1], 5)
        if engine == "symdel2":
            return pyrepseq.symdel(r, max_edits=k, seqs2=q)
        if engine == "nn2":
            return pyrepseq.nearest_neighbor(r, max_edits=k, seqs2=q)
        if engine == "symdeldb":
            return nn.SymdelDB(r, k).lookup(q)
        return nn.LookupDB(r).lookup(q, max_edits=k)
    if same_object:
        # the caller passes the very same container object as reference and as query collection
        obj = list(refs)
        if engine == "symdel2":
            return pyrepseq.symdel(obj, max_edits=k, seqs2=obj)
        if engine == "nn2":
            return pyrepseq.nearest_neighbor(obj, max_edits=k, seqs2=obj)
        if engine == "symdeldb":
            return nn.SymdelDB(obj, k).lookup(obj)
        return nn.LookupDB(obj).lookup(obj, max_edits=k)
    if engine == "symdel2":
        return pyrepseq.symdel(list(refs), max_edits=k, seqs2=list(queries))
    if engine == "nn2":
        return pyrepseq.nearest_neighbor(list(refs), max_edits=k, seqs2=list(queries))
    if engine == "symdeldb":
        return nn.SymdelDB(list(refs), k).lookup(list(queries))
    if engine == "lookupdb":
        return nn.LookupDB(list(refs)).lookup(list(queries), max_edits=k)
    raise ValueError(engine)


def classify(refs, queries, want):
    cl = []
    if any(q == r for q, r, d in want):
        cl.append("equal_positions_hit")
    if any(d == 0 for q, r, d in want):
        cl.append("d0_hit")
    if any(len(queries[q]) != len(refs[r]) for q, r, d in want):
        cl.append("indel_hit")
    if len(queries) > len(refs):
        cl.append("more_queries_than_refs")
    if len(set(refs)) < len(refs) or len(set(queries)) < len(queries):
        cl.append("duplicates")
    if not want:
        cl.append("no_hit")
    return cl


def check_pair(case, rec):
    if "alphabet" in case:
        refs = O.all_strings(case["alphabet"], case["L"])
        r = case["rot"] % len(refs)
        queries = refs[r:] + refs[:r]
        if case.get("short"):
            queries = queries[: len(refs) // 3]
    else:
        refs, queries = case["refs"], case["queries"]
    k = case["k"]
    want = O.neighbours_cross(queries, refs, k, O.lev)
    cl = classify(refs, queries, want)
    rec.note(case, bool(set(cl) & {"equal_positions_hit", "d0_hit", "indel_hit"}), cl + [case["engine"]])
    got = trip(call("search", run_engine, case["engine"], refs, queries, k, bool(case.get("same_object")) and refs == queries, case.get("containers")))
    same_multiset("cross-set", got, want, f"engine={case['engine']} k={k} refs={len(refs)} queries={len(queries)}")


def check_many_queries(case, rec):
    """Thousands of queries against a few hundred references; exact oracle by construction (G.planted_collection)."""
    n, k, nref = case["n"], case["k"], case["nref"]
    seqs, fams = G.planted_collection(n, k, case.get("salt", 0), high=True)
    # references: a slice of low codewords plus every family parent; queries: everything (parents, plants, unrelated codewords)
    ref_pos = sorted(set(range(nref)) | {f[0] for f in fams})
    refs = [seqs[p] for p in ref_pos]
    queries = list(seqs)
    want = []
    refindex = {p: r for r, p in enumerate(ref_pos)}
    for q in range(len(queries)):
        if q in refindex:
            want.append((q, refindex[q], 0))
    for fam in fams:
        r = refindex[fam[0]]
        for member in fam[1:]:
            d = O.lev(seqs[member], seqs[fam[0]])
            if d <= k:
                want.append((member, r, d))
    rec.note(case, True, [f"queries={len(queries)}", case["engine"]])
    got = trip(call("search", run_engine, case["engine"], refs, queries, k))
    same_multiset("many-queries", got, want, f"engine={case['engine']} k={k} refs={len(refs)} queries={len(queries)}")


def enum_many(tier):
    for engine in ("symdel2", "symdeldb"):
        yield {"n": 2600, "nref": 150, "k": 1, "engine": engine, "salt": 3}
        if tier == "thorough":
            yield {"n": 9000, "nref": 300, "k": 2, "engine": engine, "salt": 5}


@st.composite
def pair_case(draw, tier="quick"):
    engine = draw(st.sampled_from(["symdel2", "nn2", "symdeldb", "lookupdb", "lookupdb"]))
    if engine == "lookupdb":
        alpha = draw(st.sampled_from(["AC", "ACD", G.AA]))
        k = draw(st.sampled_from([1, 1, 2]))
        refs = draw(G.clonal_family(alpha=alpha, max_size=12, founder_len=(2, 5 if k == 2 else 10), max_edits=2))
        queries = draw(related_queries(refs, alpha, max_size=8 if k == 2 else 16, max_edits=2))
        refs = [s[:6] for s in refs] if k == 2 else refs
        queries = [s[:6] for s in queries] if k == 2 else queries
    else:
        alpha = draw(G.alphabet())
        k = draw(st.sampled_from([1, 2, 2, 3]))
        refs = draw(G.clonal_family(alpha=alpha, max_size=40))
        queries = draw(related_queries(refs, alpha, max_size=40))
    # overlapping content at equal positions, and identical copies
    mode = draw(st.sampled_from(["asis", "prefix_copy", "same"]))
    if mode == "prefix_copy":
        m = draw(st.integers(1, len(refs)))
        queries = list(refs[:m]) + list(queries)
    elif mode == "same":
        queries = list(refs)
    if engine == "lookupdb" and k == 2:
        queries = queries[:8]
    case = {"refs": list(refs), "queries": list(queries), "k": k, "engine": engine}
    if mode == "same" and list(refs) == list(queries):
        case["same_object"] = draw(st.booleans())
    if draw(st.integers(0, 2)) == 0:
        conts = ["list", "tuple", "ndarray", "series_default", "series_shifted", "series_perm", "series_str"]
        case["containers"] = [draw(st.sampled_from(conts)), draw(st.sampled_from(conts))]
    return case


def enum_pairs(tier):
    L = 3 if tier == "quick" else 4
    for engine in ("symdel2", "symdeldb", "lookupdb", "nn2"):
        for k in (1, 2):
            if engine == "lookupdb" and k == 2 and tier == "quick":
                LL = 2
            else:
                LL = L
            for rot, short in ((0, False), (5, False), (11, True)):
                yield {"alphabet": "ACD", "L": LL, "k": k, "engine": engine, "rot": rot, "short": short}


# ---------------------------------------------------------------------------
# histories
# ---------------------------------------------------------------------------

class _State:
    pass


def apply_op(state, op):
    """Execute one op of a history against the real objects; raises Violation."""
    if op["op"] == "init":
        s = _State()
        s.refs = list(op["refs"])
        s.k = op["k"]
        s.symdel = call("build", nn.SymdelDB, list(s.refs), s.k)
        s.hash = call("build", nn.LookupDB, list(s.refs))
        s.nlookups = 0
        s.qlists = set()
        s.nontrivial_hit = False
        return s
    queries = list(op["queries"])
    s = state
    s.nlookups += 1
    s.qlists.add(tuple(queries))
    mode = op.get("mode", "lev")
    kw = {} if mode == "lev" else ({"custom_distance": "hamming"} if mode == "hamming" else
                                   {"custom_distance": CUSTOM[mode], "max_custom_distance": float(op.get("maxc", "inf"))})
    if op["op"] == "symdel_lookup":
        k = s.k
        got = trip(call("lookup", s.symdel.lookup, list(queries), **kw))
        fresh = trip(call("fresh", pyrepseq.symdel, list(s.refs), max_edits=k, seqs2=list(queries), **kw))
    else:
        k = op["k"]
        got = trip(call("lookup", s.hash.lookup, list(queries), max_edits=k, **kw))
        fresh = trip(call("fresh", lambda: nn.LookupDB(list(s.refs)).lookup(list(queries), max_edits=k, **kw)))
    if mode == "lev":
        want = O.neighbours_cross(queries, s.refs, k, O.lev)
    elif mode == "hamming":
        want = O.neighbours_cross(queries, s.refs, k, O.ham)
    else:
        want = [(a, b, int(d) if float(d) == int(d) else float(d))
                for a, b, d in custom_neighbours_cross(queries, s.refs, k, mode, float(op.get("maxc", "inf")))]
    if any(q == r or d == 0 or len(queries[q]) != len(s.refs[r]) for q, r, d in want):
        s.nontrivial_hit = True
    same_multiset("history-vs-fresh", got, fresh, f"step {s.nlookups} {op['op']}")
    same_multiset("history-vs-oracle", got, want, f"step {s.nlookups} {op['op']} k={k}")
    return s


def check_history(case, rec):
    state = None
    for op in case["ops"]:
        state = apply_op(state, op)
    if state is not None:
        nt = state.nlookups >= 3 and len(state.qlists) >= 2 and state.nontrivial_hit
        rec.note(case, nt, [f"lookups={min(state.nlookups, 6)}"])


def machine(tier, rec):
    alpha = "ACD"

    class DBMachine(RuleBasedStateMachine):
        STEPS = 12
        trace = None

        def __init__(self):
            super().__init__()
            type(self).trace = self.ops = []
            self.state = None

        @initialize(refs=G.clonal_family(alpha=alpha, max_size=15, founder_len=(2, 5), max_edits=2),
                    k=st.sampled_from([1, 2]))
        def init(self, refs, k):
            op = {"op": "init", "refs": [s[:6] for s in refs], "k": k}
            self.ops.append(op)
            self.state = apply_op(None, op)

        @rule(data=st.data())
        def symdel_lookup(self, data):
            q = data.draw(related_queries(self.state.refs, alpha, max_size=6, max_edits=2))
            op = {"op": "symdel_lookup", "queries": [s[:7] for s in q]}
            self.ops.append(op)
            apply_op(self.state, op)

        @rule(data=st.data(), k=st.sampled_from([1, 1, 2]))
        def hash_lookup(self, data, k):
            q = data.draw(related_queries(self.state.refs, alpha, max_size=5, max_edits=2))
            op = {"op": "hash_lookup", "queries": [s[:6] for s in q], "k": k}
            self.ops.append(op)
            apply_op(self.state, op)

        @rule(data=st.data(), mode=st.sampled_from(["hamming", "half", "double", "lenpen"]), maxc=st.sampled_from(["inf", "1", "2.5"]),
              which=st.sampled_from(["symdel_lookup", "hash_lookup"]))
        def mode_lookup(self, data, mode, maxc, which):
            # the same database object answers Levenshtein, Hamming and custom-distance lookups in any order
            q = data.draw(related_queries(self.state.refs, alpha, max_size=5, max_edits=2, hamming=(mode == "hamming")))
            op = {"op": which, "queries": [s[:6] for s in q], "mode": mode}
            if which == "hash_lookup":
                op["k"] = 1
            if mode != "hamming":
                op["maxc"] = maxc
            self.ops.append(op)
            apply_op(self.state, op)

        @rule()
        def requery_refs(self):
            op = {"op": "symdel_lookup", "queries": list(self.state.refs)}
            self.ops.append(op)
            apply_op(self.state, op)

        def teardown(self):
            if self.state is not None:
                s = self.state
                rec.note({"ops": self.ops}, s.nlookups >= 3 and len(s.qlists) >= 2 and s.nontrivial_hit,
                         [f"lookups={min(s.nlookups, 6)}"])

    return DBMachine


SUBS = [
    Sub("pair_exhaustive", check_pair, enum=enum_pairs),
    Sub("many_queries", check_many_queries, enum=enum_many),
    Sub("pair_random", check_pair, strategy=lambda tier: pair_case(tier), budget=(2500, 30000)),
    Sub("history", check_history, machine=machine, budget=(400, 5000)),
]
