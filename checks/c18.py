"""C18 — input cleaning is total, cell-local and never alters the caller's table."""
import logging
import math
from decimal import Decimal
from fractions import Fraction

import numpy as np
import pandas as pd
from hypothesis import strategies as st

from vlib import boot
from vlib.common import Sub, Violation, call, G

pyrepseq = boot.import_pyrepseq()
import tidytcells as tt  # noqa: E402

logging.disable(logging.CRITICAL)

PROPERTY = "C18"
QUICK_SCALE = 3
RULE = ("predicates: a recursive strategy over None, NaN, +-inf, ints, floats, bools, complex, Fraction, Decimal, bytes, full-Unicode "
        "text, amino-acid text (valid and near-valid CDR3s: lower case, inner space, X, wrong ends, empty), lists / tuples / sets "
        "/ frozensets / dicts of these (empty containers included), NumPy scalars / arrays and pandas Series: no exception, "
        "result is a bool (numpy.bool_ tolerated for NumPy/pandas inputs), for str exactly the stated predicate, for None / "
        "numbers False. standardize_dataframe: tables over any subset of the nine standard columns (optionally under other names "
        "+ col_mapper), extra columns, arbitrary index; cells from pools of valid symbols, non-standard aliases, junk, '', None / "
        "NaN; options species x tcr_precision x mhc_precision x tcr_enforce_functional x strict_cdr3_standardization x "
        "standardize: input unchanged, row count / order / index / other columns preserved, each standard cell == the direct "
        "per-cell tidytcells call (missing => missing), standardize=False => renamed input, changing one cell changes only that "
        "output cell. multimerge: 2-4 tables with partially overlapping unique keys, key as index or named column, suffixes or "
        "not, how in {default(outer), inner} against a dict-based join model. Non-trivial: predicates: a container or a near-valid "
        "string; tables: >= 1 valid, >= 1 alias, >= 1 junk and >= 1 missing cell with a non-default option; merge: keys neither "
        "identical nor disjoint."
        " Cells also appear in other letter case / with a trailing blank next to their originals.")
ASSUMPTIONS = ["the per-cell oracle is tidytcells itself: what is decided is pyrepseq's routing (which function, which options, which "
               "cells), copying and locality, not tidytcells' own correctness",
               "standard-column cells are strings or missing"]

AA = set(G.AA)

# ---------------------------------------------------------------------------
# predicates
# ---------------------------------------------------------------------------
LEAVES = [None, float("nan"), float("inf"), -float("inf"), 0, 1, -7, 3.5, True, False, 2 + 3j, Fraction(1, 3), Decimal("1.5"),
          b"", b"CASSF", "", "C", "F", "CF", "CASSF", "CASSW", "CASSC", "CASS", "ASSF", "cassf", "CAS SF", "CASXF", "CASSF ", " CASSF",
          "CASSY", "CASSL", "CY", "CASSK", "CASSG", "WASSF", "FASSC", "CÄSSF", "C\u0000F", "ACDEFGHIKLMNPQRSTVWY", "B", "CF\n", "\U0001d4b3", "c", "CAS-SF", "C.F", "CFf"]


def build_obj(spec):
    t = spec[0]
    if t == "leaf":
        return LEAVES[spec[1]]
    if t == "text":
        return spec[1]
    if t == "nan":
        return float("nan")
    if t == "npscalar":
        return [np.float64("nan"), np.int64(3), np.str_("CASSF"), np.str_(""), np.bool_(True), np.float32(1.5)][spec[1] % 6]
    kids = [build_obj(s) for s in spec[1]]
    if t == "list":
        return kids
    if t == "tuple":
        return tuple(kids)
    if t == "dict":
        out = {}
        for i, k in enumerate(kids):
            try:
                out[k] = i
            except TypeError:
                out[i] = k
        return out
    if t in ("set", "frozenset"):
        out = set()
        for k in kids:
            try:
                out.add(k)
            except TypeError:
                pass
        return out if t == "set" else frozenset(out)
    if t == "ndarray":
        try:
            return np.array(kids)
        except Exception:  # noqa: BLE001
            return np.array([str(k) for k in kids])
    if t == "objarray":
        a = np.empty(len(kids), dtype=object)
        for i, k in enumerate(kids):
            a[i] = k
        return a
    if t == "series":
        a = np.empty(len(kids), dtype=object)
        for i, k in enumerate(kids):
            a[i] = k
        return pd.Series(a, index=spec[2] if len(spec) > 2 and len(spec[2]) == len(kids) else None)
    raise ValueError(t)


def check_predicate(case, rec):
    obj = build_obj(case["obj"])
    is_container = case["obj"][0] not in ("leaf", "text", "nan", "npscalar")
    near = isinstance(obj, str) and obj.upper().strip().startswith("C") and obj not in ("CASSF",)
    rec.note(case, is_container or near, [case["obj"][0], type(obj).__name__])
    for name, f in (("isvalidaa", pyrepseq.isvalidaa), ("isvalidcdr3", pyrepseq.isvalidcdr3)):
        r = call(name, f, obj)
        numpyish = isinstance(obj, (np.ndarray, np.generic, pd.Series))
        if not (isinstance(r, bool) or (numpyish and isinstance(r, np.bool_))):
            raise Violation(f"{name}-not-bool", f"{name}({obj!r}) returned {r!r} of type {type(r).__name__}")
        if isinstance(obj, str):
            want = all(c in AA for c in obj)
            if name == "isvalidcdr3":
                want = want and len(obj) > 0 and obj[0] == "C" and obj[-1] in "FWC"
            if bool(r) != want:
                raise Violation(f"{name}-string", f"{name}({obj!r}) = {r!r}, expected {want}")
        elif obj is None or isinstance(obj, (int, float, complex, Fraction, Decimal, np.number)) and not isinstance(obj, (np.str_,)):
            if bool(r):
                raise Violation(f"{name}-number", f"{name}({obj!r}) = {r!r}, expected False")


def enum_leaves(tier):
    for i in range(len(LEAVES)):
        yield {"obj": ["leaf", i]}
    for i in range(6):
        yield {"obj": ["npscalar", i]}
    for t in ("list", "tuple", "dict", "set", "frozenset", "ndarray", "objarray", "series"):
        yield {"obj": [t, []]}
        yield {"obj": [t, [["text", "C"], ["text", "F"]]]}
        yield {"obj": [t, [["text", "C"], ["text", "A"]]]}
        yield {"obj": [t, [["text", "CASSF"]]]}
    yield {"obj": ["series", [["text", "C"], ["text", "F"]], [0, -1]]}
    yield {"obj": ["series", [["text", "C"], ["text", "F"]], ["a", "b"]]}
    yield {"obj": ["series", [["text", "C"], ["text", "F"]], [1, 0]]}


def obj_strategy():
    leaf = st.one_of(
        st.integers(0, len(LEAVES) - 1).map(lambda i: ["leaf", i]),
        st.text(max_size=8).map(lambda s: ["text", s]),
        st.text(alphabet=G.AA + "cfwX ", max_size=10).map(lambda s: ["text", s]),
        st.text(alphabet=G.AA, max_size=8).map(lambda s: ["text", "C" + s + "F"]),
        st.tuples(st.text(alphabet=G.AA, max_size=6), st.sampled_from(G.AA), st.sampled_from(G.AA)).map(lambda t: ["text", t[1] + t[0] + t[2]]),
        st.integers(0, 5).map(lambda i: ["npscalar", i]),
    )
    return st.recursive(
        leaf,
        lambda kids: st.tuples(st.sampled_from(["list", "tuple", "dict", "set", "frozenset", "ndarray", "objarray", "series"]),
                               st.lists(kids, max_size=4)).map(list),
        max_leaves=8)


@st.composite
def predicate_case(draw, tier="quick"):
    return {"obj": draw(obj_strategy())}


# ---------------------------------------------------------------------------
# standardize_dataframe
# ---------------------------------------------------------------------------
STD = ["TRAV", "CDR3A", "TRAJ", "TRBV", "CDR3B", "TRBJ", "Epitope", "MHCA", "MHCB"]
POOLS = {
    "TRAV": ["TRAV26-1*01", "av26.1*1", "TCRAV20*01", "TRAV1-1", "trav12-2", " TRAV1-2 ", "TRAV8-7", "TRAV14/DV4*02", "unknown", "junk!", "", "TRBV7-2", "TRAV14D-1"],
    "TRAJ": ["TRAJ43*01", "aj43*1", "TCRAJ28*01", "TRAJ1", "traj12", "TRAJ60", "unknown", "", "TRBJ1-1"],
    "TRBV": ["TRBV7-2*01", "bv13*1", "TCRBV28S1*01", "TRBV1", "trbv20-1", "TRBV5-2", "TRBV13-2", "unknown", "", "TRAV1-1"],
    "TRBJ": ["TRBJ2-4*01", "bj1.5*1", "TCRBJ2S6*01", "TRBJ1-1", "trbj2-7", "TRBJ2-2P", "unknown", ""],
    "CDR3A": ["CAVPSGAGSYQLTF", "CIVRAPGRADMRF", "AVPSGAGSYQLT", "cavf", "CAV F", "CAVX", "", "unknown", "CAVW", "ASSF"],
    "CDR3B": ["CASSLGQSGANVLTF", "CASSDWGSQNTLYF", "ASSLG", "cassf", "CAS SF", "CASXF", "", "unknown", "CASSC"],
    "Epitope": ["GILGFVFTL", "LQPFPQPELPYPQPQ", "gilgfvftl", "not an epitope", "X123", "", "FLKEKGGL",
                # free text differing only in letter case / surrounding blanks (kept verbatim, cell by cell)
                "NOT AN EPITOPE", "Not an Epitope", "x123", "np 177", "NP 177", " np 177"],
    "MHCA": ["HLA-A*02:01", "b8", "HLA-DQA1*05", "HLA-A*02", "hla-a2", "H2-Kb", "junk", "", "HLA-B*08:01:01"],
    "MHCB": ["B2M", "b2m", "HLA-DQB1*02", "HLA-DRB1*15:01", "junk", "", "H2-Ab1"],
}
VALID = {c: set(v[:1]) | {v[3]} for c, v in POOLS.items()}
ALIAS = {c: {v[1], v[2]} for c, v in POOLS.items()}


def tidy(col, x, opt):
    if x is None:
        return None
    sw = True
    if col in ("CDR3A", "CDR3B"):
        return tt.junction.standardize(seq=x, strict=opt["strict"], suppress_warnings=sw)
    if col in ("TRAV", "TRAJ", "TRBV", "TRBJ"):
        return tt.tr.standardize(gene=x, species=opt["species"], enforce_functional=opt["functional"],
                                 precision=opt["tcr_precision"], suppress_warnings=sw)
    if col in ("MHCA", "MHCB"):
        return tt.mh.standardize(gene=x, species=opt["species"], precision=opt["mhc_precision"], suppress_warnings=sw)
    if col == "Epitope":
        return tt.aa.standardize(seq=x, on_fail="keep", suppress_warnings=sw)
    raise ValueError(col)


def is_missing(x):
    return x is None or (isinstance(x, float) and math.isnan(x)) or x is pd.NA


NEAR_STD = ["TRBV_raw", "CDR3B_nt", "Epitope_species", "MHCA_class", "TRBJ2", "xTRAV", "cdr3a", "TRAJ ", "MHCB.1"]
NEAR_STD_CELLS = ["TCRBV28S1*01", "trbv7-2*01", "casslgf", "HLA-A*02:01:01", "bj1.5*1", "junk 1", "TRAV1-2*01", "tgtgccagc"]


def build_std_table(case):
    cols = case["columns"]           # list of {"std": name, "name": actual column name}
    rows = case["rows"]              # list of lists of cell (str | None | "<nan>")
    data = {}
    for ci, c in enumerate(cols):
        vals = []
        for r in rows:
            v = r[ci]
            vals.append(np.nan if v == "<nan>" else v)
        data[c["name"]] = pd.Series(vals, dtype=object)
    for e in case.get("extra", []):
        if e in NEAR_STD:
            # a non-standard column whose NAME merely resembles a standard one; its cells are texts a cleaner would rewrite or drop
            data[e] = pd.Series([NEAR_STD_CELLS[(i + len(e)) % len(NEAR_STD_CELLS)] for i in range(len(rows))], dtype=object)
        else:
            data[e] = pd.Series([f"{e}{i}" if e != "clone_count" else i for i in range(len(rows))])
    df = pd.DataFrame(data)
    order = case.get("col_order")
    if order:
        cols_now = list(df.columns)
        df = df[[cols_now[i % len(cols_now)] for i in order if True][:len(cols_now)]] if sorted(i % len(cols_now) for i in order[:len(cols_now)]) == list(range(len(cols_now))) else df
    n = len(rows)
    idx = {"default": None, "str": [f"r{i}" for i in range(n)], "rev": list(range(n))[::-1], "dup": [i // 2 for i in range(n)],
           "mixed": [i if i % 2 else f"m{i}" for i in range(n)]}[case.get("index", "default")]
    if idx is not None:
        df.index = idx
    return df


def cell_equal(a, b):
    if is_missing(a) and is_missing(b):
        return True
    return (not is_missing(a)) and (not is_missing(b)) and a == b


def std_kwargs(case):
    o = case["options"]
    kw = dict(species=o["species"], tcr_enforce_functional=o["functional"], tcr_precision=o["tcr_precision"],
              mhc_precision=o["mhc_precision"], strict_cdr3_standardization=o["strict"], suppress_warnings=True)
    if not o.get("standardize", True):
        kw["standardize"] = False
    return kw


def check_standardize(case, rec):
    df = build_std_table(case)
    cols = case["columns"]
    o = case["options"]
    mapper = {c["name"]: c["std"] for c in cols if c["name"] != c["std"]}
    cells = [(c["std"], v) for r in case["rows"] for c, v in zip(cols, r)]
    kinds = set()
    for col, v in cells:
        if v is None or v == "<nan>":
            kinds.add("missing")
        elif v in VALID[col]:
            kinds.add("valid")
        elif v in ALIAS[col] or v.upper() in VALID[col]:
            kinds.add("alias")
        else:
            kinds.add("junk")
    nondefault = (o["species"] != "HomoSapiens" or not o["functional"] or o["tcr_precision"] != "gene" or o["mhc_precision"] != "gene"
                  or o["strict"] or bool(mapper))
    rec.note(case, {"missing", "valid", "alias", "junk"} <= kinds and nondefault,
             [f"species={o['species']}", "mapper" if mapper else "no_mapper", "standardize" if o.get("standardize", True) else "no_standardize",
              case.get("index", "default")])
    before = df.copy(deep=True)
    kw = std_kwargs(case)
    passed = dict(mapper)
    if case.get("mapper_absent") == "absent_keys":
        passed.update({"v_call_b (absent)": "TRBV", "junction_aa (absent)": "CDR3B", "antigen (absent)": "Epitope", 17: "MHCA"})
    if passed or case.get("mapper_absent") == "empty":
        kw["col_mapper"] = dict(passed)
    mapper_before = dict(passed)
    out = call("standardize_dataframe", pyrepseq.standardize_dataframe, df, **kw)
    if not (before.equals(df) and list(before.columns) == list(df.columns) and before.index.equals(df.index)):
        raise Violation("standardize-mutates-input", "the caller's table changed")
    if "col_mapper" in kw and kw["col_mapper"] != mapper_before:
        raise Violation("standardize-mutates-mapper", f"the caller's col_mapper changed: {kw['col_mapper']!r}")
    want_cols = [mapper.get(c, c) for c in df.columns]
    if list(out.columns) != want_cols:
        raise Violation("standardize-columns", f"columns {list(out.columns)} != {want_cols}")
    if len(out) != len(df) or not out.index.equals(df.index):
        raise Violation("standardize-rows", f"row count / index changed: {list(out.index)[:6]} vs {list(df.index)[:6]}")
    stdnames = {c["std"]: c["name"] for c in cols}
    for j, cname in enumerate(df.columns):
        oname = want_cols[j]
        src = df.iloc[:, j].tolist()
        dst = out.iloc[:, j].tolist()
        if oname in STD and oname in stdnames and o.get("standardize", True):
            for i, (a, b) in enumerate(zip(src, dst)):
                want = None if is_missing(a) else tidy(oname, a, o)
                if not cell_equal(b, want):
                    raise Violation("standardize-cell", f"column {oname} row {i}: {a!r} -> {b!r}, tidytcells gives {want!r} under {o}")
        else:
            for i, (a, b) in enumerate(zip(src, dst)):
                if not cell_equal(a, b):
                    raise Violation("standardize-untouched-cell", f"column {oname} row {i}: {a!r} became {b!r}")
    # metamorphic cell-locality: change one standard cell, only that output cell may change
    ch = case.get("change")
    if ch and o.get("standardize", True):
        i, j, newv = ch["row"] % len(df), ch["col"] % len(cols), ch["value"]
        cname = cols[j]["name"]
        df2 = df.copy(deep=True)
        jj = list(df2.columns).index(cname)
        df2.iloc[i, jj] = newv
        out2 = call("standardize_dataframe", pyrepseq.standardize_dataframe, df2, **kw)
        for a in range(len(df)):
            for b in range(len(df.columns)):
                if (a, b) == (i, jj):
                    continue
                if not cell_equal(out.iloc[a, b], out2.iloc[a, b]):
                    raise Violation("standardize-not-cell-local", f"changing cell ({i},{cname}) to {newv!r} changed output cell ({a},{out.columns[b]})")


@st.composite
def std_case(draw, tier="quick"):
    k = draw(st.integers(1, 9))
    chosen = draw(st.permutations(STD))[:k]
    rename = draw(st.booleans())
    cols = []
    for c in chosen:
        name = c
        if rename and draw(st.booleans()):
            name = draw(st.sampled_from([c.lower() + "_raw", "col_" + c, c + " (orig)"]))
        cols.append({"std": c, "name": name})
    n = draw(st.integers(1, 8))
    rows = []
    for _ in range(n):
        r = []
        for c in cols:
            kind = draw(st.sampled_from(["pool", "pool", "pool", "none", "nan"]))
            v = None if kind == "none" else ("<nan>" if kind == "nan" else draw(st.sampled_from(POOLS[c["std"]])))
            if kind == "pool" and v and draw(st.integers(0, 5)) == 0:
                # the same text in another letter case / with a surrounding blank, possibly next to its original in the column
                v = draw(st.sampled_from([v.lower(), v.upper(), v.title(), v + " "]))
            r.append(v)
        rows.append(r)
    opts = {"species": draw(st.sampled_from(["HomoSapiens", "HomoSapiens", "MusMusculus"])),
            "functional": draw(st.booleans()), "tcr_precision": draw(st.sampled_from(["gene", "allele"])),
            "mhc_precision": draw(st.sampled_from(["gene", "protein", "allele"])), "strict": draw(st.booleans()),
            "standardize": draw(st.integers(0, 5)) != 0}
    if draw(st.integers(0, 4)) == 0:
        # the raw table has the V and J columns under each other's names: the mapper swaps them (a simultaneous rename)
        for a, b in (("TRBV", "TRBJ"), ("TRAV", "TRAJ")):
            ca = [c for c in cols if c["std"] == a]
            cb = [c for c in cols if c["std"] == b]
            if ca and cb:
                ca[0]["name"], cb[0]["name"] = b, a
                break
    case = {"columns": cols, "rows": rows, "options": opts, "extra": draw(st.lists(st.sampled_from(["clone_count", "sample", "note"] + NEAR_STD), unique=True, max_size=4)),
            "index": draw(st.sampled_from(["default", "str", "rev", "dup", "mixed"]))}
    # a mapping that (also) names columns this table does not have: {} or a general raw-name -> standard-name mapper applied
    # to a table that already uses (some of) the standard names; pandas' rename ignores the absent keys
    case["mapper_absent"] = draw(st.sampled_from(["none", "none", "empty", "absent_keys"]))
    if draw(st.booleans()):
        j = draw(st.integers(0, k - 1))
        case["change"] = {"row": draw(st.integers(0, n - 1)), "col": j, "value": draw(st.sampled_from(POOLS[cols[j]["std"]]))}
    return case


# ---------------------------------------------------------------------------
# multimerge
# ---------------------------------------------------------------------------

def check_merge(case, rec):
    tables = case["tables"]      # list of {"keys": [...], "cols": {name: [values]}}
    on_index, suffixes, how = case["on_index"], case.get("suffixes"), case.get("how")
    keysets = [set(t["keys"]) for t in tables]
    inter = set.intersection(*keysets)
    union = set.union(*keysets)
    rec.note(case, bool(inter) and inter != union, [f"n={len(tables)}", "index" if on_index else "column", "suffixes" if suffixes else "no_suffixes", how or "outer"])
    dfs = []
    for t in tables:
        d = pd.DataFrame({k: list(v) for k, v in t["cols"].items()})
        if on_index:
            d.index = list(t["keys"])
        else:
            d.insert(0, "key", list(t["keys"]))
        dfs.append(d)
    befores = [d.copy(deep=True) for d in dfs]
    kw = {}
    if suffixes:
        kw["suffixes"] = list(suffixes)
    if how:
        kw["how"] = how
    out = call("multimerge", pyrepseq.multimerge, dfs, "index" if on_index else "key", **kw)
    for b, d in zip(befores, dfs):
        if not b.equals(d) or list(b.columns) != list(d.columns):
            raise Violation("multimerge-mutates-input", "an input table changed")
    # reference model: fold the tables from the left with a dict-based join (for outer / inner the order does not matter)
    acc = {k: {} for k in tables[0]["keys"]}
    for cname, vals in tables[0]["cols"].items():
        oname = f"{cname}_{suffixes[0]}" if suffixes else cname
        for k, v in zip(tables[0]["keys"], vals):
            acc[k][oname] = v
    allcols = [f"{c}_{suffixes[0]}" if suffixes else c for c in tables[0]["cols"]]
    for ti, t in enumerate(tables[1:], start=1):
        right = {k: {} for k in t["keys"]}
        rcols = []
        for cname, vals in t["cols"].items():
            oname = f"{cname}_{suffixes[ti]}" if suffixes else cname
            rcols.append(oname)
            for k, v in zip(t["keys"], vals):
                right[k][oname] = v
        h = how or "outer"
        if h == "outer":
            ks = list(dict.fromkeys(list(acc) + list(right)))
        elif h == "inner":
            ks = [k for k in acc if k in right]
        elif h == "left":
            ks = list(acc)
        else:
            ks = list(right)
        acc = {k: {**acc.get(k, {}), **right.get(k, {})} for k in ks}
        allcols += rcols
    keys = sorted(acc)
    model = {c: {k: acc[k].get(c) for k in keys} for c in allcols}
    if (not on_index) and (not suffixes):
        if "key" not in out.columns:
            raise Violation("multimerge-key-column", f"key column missing from {list(out.columns)}")
        got_keys = list(out["key"])
        body = out.drop(columns=["key"])
    else:
        got_keys = list(out.index)
        body = out
    if sorted(got_keys) != keys:
        raise Violation("multimerge-keys", f"how={how or 'outer'}: keys {sorted(got_keys)} != {keys}")
    if sorted(body.columns) != sorted(model):
        raise Violation("multimerge-columns", f"columns {sorted(body.columns)} != {sorted(model)}")
    for cname in model:
        for k, v in zip(got_keys, body[cname].tolist()):
            w = model[cname][k]
            if w is None:
                if not is_missing(v):
                    raise Violation("multimerge-value", f"[{k},{cname}] = {v!r}, expected missing")
            elif is_missing(v) or v != w:
                raise Violation("multimerge-value", f"[{k},{cname}] = {v!r}, expected {w!r}")


@st.composite
def merge_case(draw, tier="quick"):
    nt = draw(st.integers(2, 4))
    keytype = draw(st.sampled_from(["str", "int"]))
    universe = ["CASSL", "CASSF", "CAWY", "k4", "k5", "k6"] if keytype == "str" else [1, 2, 3, 5, 8, 13]
    suffixes = draw(st.booleans())
    tables = []
    for ti in range(nt):
        keys = draw(st.lists(st.sampled_from(universe), min_size=1, max_size=6, unique=True))
        ncols = draw(st.integers(1, 2))
        cols = {}
        for ci in range(ncols):
            cname = ["count", "freq"][ci] if suffixes else f"t{ti}c{ci}"
            cols[cname] = [draw(st.integers(1, 99)) if ci == 0 else f"v{ti}{i}" for i in range(len(keys))]
        tables.append({"keys": keys, "cols": cols})
    case = {"tables": tables, "on_index": draw(st.booleans())}
    if suffixes:
        case["suffixes"] = [f"s{i}" for i in range(nt)]
    if draw(st.booleans()):
        case["how"] = draw(st.sampled_from(["inner", "outer", "left", "left", "right"]))
    return case


SUBS = [
    Sub("predicates_enum", check_predicate, enum=enum_leaves),
    Sub("predicates_random", check_predicate, strategy=lambda t: predicate_case(t), budget=(4000, 40000)),
    Sub("standardize", check_standardize, strategy=lambda t: std_case(t), budget=(1500, 15000)),
    Sub("multimerge", check_merge, strategy=lambda t: merge_case(t), budget=(2000, 20000)),
]


# ---------------------------------------------------------------------------
# thorough tier: coverage-guided fuzzing (atheris) of the two predicates (bytes -> object tree), same oracle inside
# ---------------------------------------------------------------------------
def _fuzz_obj(fdp, depth=0):
    kind = fdp.ConsumeIntInRange(0, 9 if depth < 2 else 3)
    if kind == 0:
        return ["leaf", fdp.ConsumeIntInRange(0, len(LEAVES) - 1)]
    if kind in (1, 2):
        n = fdp.ConsumeIntInRange(0, 8)
        pool = G.AA + "cfwX \n-"
        return ["text", "".join(pool[fdp.ConsumeIntInRange(0, len(pool) - 1)] for _ in range(n))]
    if kind == 3:
        return ["text", fdp.ConsumeUnicodeNoSurrogates(6)]
    t = ["list", "tuple", "dict", "set", "frozenset", "ndarray"][kind - 4]
    return [t, [_fuzz_obj(fdp, depth + 1) for _ in range(fdp.ConsumeIntInRange(0, 3))]]


def fuzz_decode_predicate(fdp):
    return {"obj": _fuzz_obj(fdp)}


FUZZ = {"predicates": (fuzz_decode_predicate, "predicates_random")}
FUZZ_RUNS = 160000
