"""C01 — default neighbour search (nearest_neighbor / symdel) is exact."""
from hypothesis import strategies as st

from vlib.common import Sub, Violation, call, trip, same_multiset, O, G
from vlib import boot

pyrepseq = boot.import_pyrepseq()

PROPERTY = "C01"
QUICK_SCALE = 4
RULE = ("exhaustive: every string of length 0..L over a 2-3 letter alphabet handed to the engine in ONE call "
        "(all pairs at once), for k=1..4, with and without every string duplicated; random: clonal-family "
        "repertoires (founders + 0-3 edits biased to homopolymer runs, duplicates, empty and very short strings) "
        "over amino-acid / small / Unicode alphabets, k=1..4, through nearest_neighbor and symdel. Oracle: own "
        "Wagner-Fischer DP over all ordered pairs, compared as multisets. Non-trivial: the true neighbour set "
        "contains an indel pair, or a distance-0 duplicate pair, or k>=2, or some string is shorter than k. "
        "Distinct = distinct (engine, k, sequence list)."
        " Also: dense collections (all single substitutions of 1-3 founders, distances known analytically) and alphabets whose letters differ in case, blanks or Unicode normalisation only.")
ASSUMPTIONS = ["oracle DP cross-checked against the Levenshtein C library at start-up",
               "sequences are passed as Python lists here; other containers are C10's subject"]

ENGINES = {"nearest_neighbor": pyrepseq.nearest_neighbor, "symdel": pyrepseq.symdel}


def selftest():
    O.selftest()


def classify(seqs, k, want):
    cl = []
    if any(len(seqs[i]) != len(seqs[j]) for i, j, d in want):
        cl.append("indel_pair")
    if any(d == 0 for _, _, d in want):
        cl.append("dup_pair")
    if k >= 2:
        cl.append("k>=2")
    if any(len(s) < k for s in seqs):
        cl.append("shorter_than_k")
    if "" in seqs:
        cl.append("empty_string")
    if not want:
        cl.append("no_neighbours")
    return cl


def check(case, rec):
    seqs = case["seqs"] if "seqs" in case else universe(case)
    k = case["k"]
    engine = ENGINES[case["engine"]]
    want = O.neighbours_self(seqs, k, O.lev)
    cl = classify(seqs, k, want)
    rec.note(case, bool(set(cl) & {"indel_pair", "dup_pair", "k>=2", "shorter_than_k"}), cl)
    got = trip(call("search", engine, list(seqs), max_edits=k))
    for i, j, d in got:
        if i == j:
            raise Violation("self-neighbour", f"position {i} reported as its own neighbour")
    same_multiset("neighbour-set", got, want, f"engine={case['engine']} k={k} n={len(seqs)}")


def check_dense(case, rec):
    """Dense repertoire: all single substitutions of 1-3 founders - hundreds of mutual neighbours, many exactly on the radius, spread
    over many tree leaves / deletion buckets; distances known analytically (G.dense_collection)."""
    k = case["k"]
    seqs, meta = G.dense_collection(case["founders"], case.get("per_founder"), case.get("step", 1))
    want = G.dense_neighbours(meta, k)
    rec.note(case, True, [f"n={len(seqs)}", case["engine"], f"k={k}"])
    got = trip(call("search", ENGINES[case["engine"]], list(seqs), max_edits=k))
    same_multiset("dense-neighbour-set", got, want, f"engine={case['engine']} k={k} n={len(seqs)} (all substitutions of {case['founders']} founder(s))")


def enum_dense(tier):
    yield {"engine": "symdel", "founders": 3, "k": 2}
    yield {"engine": "nearest_neighbor", "founders": 2, "k": 1}
    yield {"engine": "symdel", "founders": 1, "k": 2}


def check_planted(case, rec):
    """Thousands (thorough: tens of thousands) of sequences in one call; the oracle is exact by construction (G.planted_collection)."""
    n, k = case["n"], case["k"]
    seqs, fams = G.planted_collection(n, k, case.get("salt", 0), high=case.get("high", True))
    want = G.planted_neighbours(seqs, fams, k, O.lev)
    rec.note(case, True, [f"n={n}", f"k={k}"])
    got = trip(call("search", ENGINES[case["engine"]], list(seqs), max_edits=k))
    same_multiset("planted-neighbour-set", got, want, f"engine={case['engine']} k={k} n={n} (neighbours exist only inside {len(fams)} planted families)")


def enum_planted(tier):
    sizes = [(600, 1), (2500, 1), (2500, 2)] if tier == "quick" else [(600, 1), (2500, 2), (9000, 1), (50000, 1)]
    for n, k in sizes:
        for engine in ("symdel", "nearest_neighbor"):
            if n > 9000 and engine == "nearest_neighbor":
                continue
            yield {"n": n, "k": k, "engine": engine, "salt": n % 13, "high": True}


def universe(case):
    seqs = O.all_strings(case["alphabet"], case["L"])
    r = case.get("rot", 0) % len(seqs)
    seqs = seqs[r:] + seqs[:r]
    if case.get("dup"):
        seqs = seqs + seqs[::-1]
    return seqs


def enum_cases(tier):
    specs = [("AC", 6), ("ACD", 4)] if tier == "quick" else [("AC", 8), ("ACD", 6), ("ACDE", 4), ("A", 12)]
    if tier == "quick":
        specs.append(("A", 9))
    specs.append(("Aa", 5 if tier == "quick" else 7))        # two letters that differ in case only
    for alpha, L in specs:
        for k in (1, 2, 3, 4):
            for dup in (False, True):
                if dup and len(alpha) ** L > 800:
                    continue
                for engine in ("nearest_neighbor", "symdel"):
                    if engine == "symdel" and dup:
                        continue
                    yield {"alphabet": alpha, "L": L, "k": k, "dup": dup, "engine": engine,
                           "rot": 7 * k + len(alpha)}


@st.composite
def random_case(draw, tier="quick"):
    alpha = draw(G.alphabet())
    cdr3 = draw(st.booleans()) and alpha == G.AA
    seqs = draw(G.clonal_family(alpha=alpha, max_size=60 if tier == "quick" else 120, cdr3_like=cdr3))
    if draw(st.integers(0, 3)) == 0:
        dup = draw(st.sampled_from(seqs))
        seqs = list(draw(st.permutations(list(seqs) + [dup] * draw(st.integers(2, 4)))))   # 3-5 copies of one sequence
    k = draw(st.sampled_from([1, 1, 2, 2, 3, 4]))
    engine = draw(st.sampled_from(["nearest_neighbor", "symdel"]))
    return {"seqs": seqs, "k": k, "engine": engine}


SUBS = [
    Sub("exhaustive", check, enum=enum_cases),
    Sub("planted_large", check_planted, enum=enum_planted),
    Sub("dense", check_dense, enum=enum_dense),
    Sub("random", check, strategy=lambda tier: random_case(tier), budget=(3000, 40000)),
]


# ---------------------------------------------------------------------------
# thorough tier: coverage-guided fuzzing (atheris) of the pure-Python candidate generation, same oracle inside the target
# ---------------------------------------------------------------------------
_FUZZ_ALPHA = ["AC", "ACD", G.AA, "ab"]


def fuzz_decode(fdp):
    alpha = _FUZZ_ALPHA[fdp.ConsumeIntInRange(0, len(_FUZZ_ALPHA) - 1)]
    k = fdp.ConsumeIntInRange(1, 3)
    n = fdp.ConsumeIntInRange(1, 10)
    seqs = []
    for _ in range(n):
        L = fdp.ConsumeIntInRange(0, 7)
        seqs.append("".join(alpha[fdp.ConsumeIntInRange(0, len(alpha) - 1)] for _ in range(L)))
    return {"seqs": seqs, "k": k, "engine": "symdel" if fdp.ConsumeBool() else "nearest_neighbor"}


def fuzz_seed_corpus(target):
    # the inputs of the repository's own tests, encoded for fuzz_decode (alphabet 2 = amino acids)
    def enc(seqs, k):
        b = bytearray([2, k - 1, len(seqs) - 1])
        for s_ in seqs:
            b.append(len(s_))
            b.extend(G.AA.index(c) for c in s_)
        b.append(1)
        return bytes(b)
    return [enc(["CAAA", "CDDD", "CADA", "CAAK"], 1), enc(["CAAA", "CAAA", "CADA"], 1), enc(["CAF", "CAAF", "CF", ""], 2)]


FUZZ = {"symdel": (fuzz_decode, "random")}
FUZZ_RUNS = 240000
