"""C15 — clusters are the connected components / SciPy clusters of the stated distances."""
import random

import numpy as np
import pandas as pd
import scipy.cluster.hierarchy as hc
from hypothesis import strategies as st

from vlib import boot
from vlib.common import Sub, Violation, call, O, G

pyrepseq = boot.import_pyrepseq()
from pyrepseq.metric import WeightedLevenshtein  # noqa: E402
from pyrepseq.metric import tcr_metric as TM  # noqa: E402

PROPERTY = "C15"
QUICK_SCALE = 3
RULE = ("graph: neighbour lists produced by the search functions themselves (nearest_neighbor / kdtree / hash_based, Levenshtein "
        "or Hamming mode, k=1..2) on clonal-family repertoires with duplicates at d=0, isolated nodes and sometimes no neighbour "
        "at all, passed as list of tuples or ndarray; nodes as list / ndarray / Series with string index; methods cc, "
        "fastgreedy, multilevel, leiden (the documented choices). Oracle: union-find components on the edges: for "
        "'cc' same cluster <=> same component, returned rows == exactly the nodes of components with > 1 member, node column == "
        "caller's labels at those positions; community variants: every returned cluster lies inside one component and has > 1 "
        "member. hierarchical: string collections and TCR tables with arbitrary index x linkage method in {single, complete, "
        "average, weighted} x optimal_ordering x criterion in {distance, maxclust}: (linkage, clusters) == SciPy on my own "
        "condensed DP distance vector (own default-metric choice), one label per input; single linkage at integer threshold t == "
        "components of the nearest_neighbor(max_edits=t) graph. Non-trivial (graph): >= 2 components of size > 1 plus >= 1 "
        "isolated node; (hierarchical): >= 3 distinct distances."
        " Explicit metric weights up to 300 and sequences of 300-400 residues (distances beyond 255).")
ASSUMPTIONS = ["igraph's community algorithms draw from Python's `random`, which is seeded per case",
               "neighbour lists come from the default and Hamming searches (integer distances)"]


def selftest():
    O.selftest()


def search(case):
    seqs, k = case["seqs"], case["k"]
    cd = "hamming" if case.get("hamming") else None
    if case["engine"] == "symdel_against_itself":
        # the two-collection form with the same sequences: the list contains (i, i, 0) for every i
        return pyrepseq.symdel(list(seqs), max_edits=k, custom_distance=cd, seqs2=list(seqs))
    if case["engine"] == "kdtree_max_returns":
        # each sequence reports only its closest neighbours: a neighbour list that is NOT symmetric
        return pyrepseq.kdtree(list(seqs), max_edits=k, custom_distance=cd, max_returns=case.get("max_returns", 1))
    f = {"nearest_neighbor": pyrepseq.nearest_neighbor, "kdtree": pyrepseq.kdtree, "hash_based": pyrepseq.hash_based}[case["engine"]]
    return f(list(seqs), max_edits=k, custom_distance=cd)


def check_graph(case, rec):
    seqs = case["seqs"]
    n = len(seqs)
    nb = call("search", search, case)
    order = case.get("adj_order", "as_returned")
    if order != "as_returned":
        # symdel returns its triplets in set order: any order of the same triplets is a neighbour list a search function may produce
        nb = sorted(nb, key=lambda t: (int(t[0]), int(t[1])), reverse=(order == "descending"))
        if order == "interleaved":
            nb = nb[::2] + nb[1::2][::-1]
    edges = [(int(a), int(b)) for a, b, _ in nb]
    self_pairs = any(a == b for a, b in edges)
    comps = O.components(n, edges)
    big = [c for c in comps if len(c) > 1]
    iso = [c for c in comps if len(c) == 1]
    method = case["method"]
    eset = set(edges)
    asym = any((b, a) not in eset for a, b in eset)
    cl = [method, case["nodes_as"], case["adj_as"], "no_neighbours" if not edges else "has_neighbours",
          "asymmetric_list" if asym else "symmetric_list", "self_pairs" if self_pairs else "no_self_pairs"]
    rec.note(case, len(big) >= 2 and len(iso) >= 1, cl)
    if case["nodes_as"] == "list":
        nodes = list(seqs)
    elif case["nodes_as"] == "ndarray":
        nodes = np.array(seqs)
    elif case["nodes_as"] == "labels":
        nodes = [f"node{i}" for i in range(n)]
    else:
        nodes = pd.Series(list(seqs), index=[f"s{i}" for i in range(n)])
    adj = list(nb) if case["adj_as"] == "list" else (np.array(nb) if len(nb) else np.array(nb))
    random.seed(case.get("py_seed", 0))
    df = call("graph_clustering", pyrepseq.graph_clustering, adj, nodes, clustering=method)
    if not isinstance(df, pd.DataFrame) or "cluster" not in df.columns or "node" not in df.columns:
        raise RuntimeError(f"harness: graph_clustering returned {type(df).__name__} / columns {list(getattr(df, 'columns', []))}")
    # recover positions of the returned rows
    if case["nodes_as"] == "series":
        posmap = {f"s{i}": i for i in range(n)}
        try:
            positions = [posmap[l] for l in df.index]
        except KeyError:
            raise Violation("cluster-rows", f"row labels {list(df.index)[:5]} are not the caller's node labels")
    else:
        positions = [int(l) for l in df.index]
    want_node = list(nodes.iloc[positions]) if isinstance(nodes, pd.Series) else [nodes[p] for p in positions]
    if [str(x) for x in df["node"]] != [str(x) for x in want_node]:
        raise Violation("cluster-node-labels", f"node column {list(df['node'])[:6]} != caller's labels {want_node[:6]}")
    comp_of = {}
    for ci, c in enumerate(comps):
        for i in c:
            comp_of[i] = ci
    clusters = {}
    for p, c in zip(positions, df["cluster"]):
        clusters.setdefault(c, []).append(p)
    if len(set(positions)) != len(positions):
        raise Violation("cluster-row-repeated", "a node is returned twice")
    for c, members in clusters.items():
        if len(members) < 2:
            raise Violation("cluster-singleton-returned", f"cluster {c} has {len(members)} member")
        if len({comp_of[m] for m in members}) != 1:
            raise Violation("cluster-spans-components", f"method={method}: cluster {c} = {members} spans several connected components")
    if method == "cc":
        got = sorted(sorted(m) for m in clusters.values())
        if got != sorted(big):
            raise Violation("cc-components", f"clusters {got} != connected components with > 1 member {sorted(big)}")


def pdvec(items, d):
    return np.array([d(items[i], items[j]) for i in range(len(items)) for j in range(i + 1, len(items))], dtype=float)


def check_hier(case, rec):
    kind = case["kind"]
    lk = dict(method=case["method"], optimal_ordering=case["optimal_ordering"])
    ck = dict(t=case["t"], criterion=case["criterion"])
    if case.get("omit_criterion"):
        ck = dict(t=case["t"])            # SciPy's own default criterion applies
    if kind == "strings":
        items = case["seqs"]
        obj = G.materialise(items, case.get("container", "list"))
        d = O.lev
    else:
        rows, cols = case["rows"], case["cols"]
        data = {}
        if "A" in cols:
            data["CDR3A"] = [r[0] for r in rows]
        if "B" in cols:
            data["CDR3B"] = [r[1] for r in rows]
        data["meta"] = list(range(len(rows)))
        n = len(rows)
        idx = {"default": None, "str": [f"r{i}" for i in range(n)], "rev": list(range(n))[::-1], "dup": [i // 2 for i in range(n)]}[case.get("index", "default")]
        obj = pd.DataFrame(data, index=idx)
        items = rows
        d = lambda r, s: (O.lev(r[0], s[0]) if "A" in cols else 0) + (O.lev(r[1], s[1]) if "B" in cols else 0)  # noqa: E731
    v = pdvec(items, d)
    rec.note(case, len(set(v.tolist())) >= 3, [kind, case["method"], case["criterion"], "explicit_metrics" if case.get("metrics") else "default_metric"])
    for mw in case.get("metrics", []):
        # explicit metric objects of one class with different weights, one after the other on the same data
        if kind == "strings":
            mobj = WeightedLevenshtein(*mw)
            dm = lambda a, b, mw=mw: O.wlev(a, b, *mw)  # noqa: E731
        else:
            mobj = TM.Cdr3Levenshtein(alpha_weight=mw[0], beta_weight=mw[1], substitution_weight=mw[2])
            if cols != "AB":
                continue
            dm = lambda r, s_, mw=mw: mw[0] * O.wlev(r[0], s_[0], 1, 1, mw[2]) + mw[1] * O.wlev(r[1], s_[1], 1, 1, mw[2])  # noqa: E731
        vm = pdvec(items, dm)
        Zm, cm = call("hierarchical_clustering", pyrepseq.hierarchical_clustering, obj, metric=mobj, linkage_kws=dict(lk), cluster_kws=dict(ck))
        Zmw = hc.linkage(vm, **lk)
        if not np.array_equal(np.asarray(Zm), Zmw):
            raise Violation("hier-linkage-explicit-metric", f"metric weights {mw}: linkage differs from SciPy on that metric's distances")
        if not np.array_equal(np.asarray(cm), hc.fcluster(Zmw, **ck)):
            raise Violation("hier-clusters-explicit-metric", f"metric weights {mw}: clusters differ from SciPy on that metric's distances")
    kwargs = {}
    if case.get("empty_kws"):
        # an explicitly EMPTY option dict asks for SciPy's own defaults (single linkage, no optimal ordering), not pyrepseq's
        lk = {}
        kwargs = dict(linkage_kws={}, cluster_kws=ck)
    elif not case.get("use_defaults"):
        kwargs = dict(linkage_kws=lk, cluster_kws=ck)
    else:
        lk, ck = dict(method="average", optimal_ordering=True), dict(t=6, criterion="distance")
    before = obj.copy() if hasattr(obj, "copy") else list(obj)
    Z, cl = call("hierarchical_clustering", pyrepseq.hierarchical_clustering, obj, **kwargs)
    Zw = hc.linkage(v, **lk)
    cw = hc.fcluster(Zw, **ck)
    if np.asarray(Z).shape != Zw.shape or not np.array_equal(np.asarray(Z), Zw):
        raise Violation("hier-linkage", f"linkage differs from SciPy on the true distances (method={lk})")
    if len(cl) != len(items):
        raise Violation("hier-label-count", f"{len(cl)} labels for {len(items)} inputs")
    if not np.array_equal(np.asarray(cl), cw):
        raise Violation("hier-clusters", f"clusters {list(cl)} != SciPy {list(cw)} ({ck})")
    if kind == "strings" and not case.get("use_defaults") and not case.get("empty_kws"):
        # cross-module identity: single linkage at integer threshold t == components of the t-neighbour graph
        t = case.get("t_int", 1)
        Z1, c1 = call("hierarchical_clustering", pyrepseq.hierarchical_clustering, obj,
                      linkage_kws=dict(method="single"), cluster_kws=dict(t=t, criterion="distance"))
        nb = call("nearest_neighbor", pyrepseq.nearest_neighbor, list(items), max_edits=t)
        comps = O.components(len(items), [(a, b) for a, b, _ in nb])
        if O.partition_of(list(c1)) != comps:
            raise Violation("single-linkage-vs-neighbour-graph", f"t={t}: partition {O.partition_of(list(c1))} != components {comps}")
    if isinstance(before, pd.DataFrame):
        if not before.equals(obj):
            raise Violation("hier-mutates-input", "table changed")


def check_hier_large(case, rec):
    n = case["n"]
    pool = case["pool"]
    items = [pool[(i * 11 + i // 5) % len(pool)] for i in range(n)]
    memo = {}

    def d(a, b):
        key = (a, b) if a <= b else (b, a)
        if key not in memo:
            memo[key] = O.lev(a, b)
        return memo[key]
    v = np.array([d(items[i], items[j]) for i in range(n) for j in range(i + 1, n)], dtype=float)
    rec.note(case, True, [f"n={n}"])
    lk, ck = dict(method=case["method"], optimal_ordering=False), dict(t=case["t"], criterion="distance")
    Z, cl = call("hierarchical_clustering", pyrepseq.hierarchical_clustering, list(items), linkage_kws=dict(lk), cluster_kws=dict(ck))
    Zw = hc.linkage(v, **lk)
    if not np.array_equal(np.asarray(Z), Zw):
        raise Violation("hier-linkage", f"n={n}: linkage differs from SciPy on the true distances")
    if not np.array_equal(np.asarray(cl), hc.fcluster(Zw, **ck)):
        raise Violation("hier-clusters", f"n={n}: clusters differ from SciPy")
    if case["method"] == "single" and float(case["t"]) == int(case["t"]):
        nb = call("nearest_neighbor", pyrepseq.nearest_neighbor, list(items), max_edits=int(case["t"]))
        if O.partition_of(list(cl)) != O.components(n, [(a, b) for a, b, _ in nb]):
            raise Violation("single-linkage-vs-neighbour-graph", f"n={n} t={case['t']}: partition differs from the components of the neighbour graph")


def enum_hier_large(tier):
    pool = ["CASSL", "CASSLG", "CASRL", "CAWSL", "WWYY", "WWYA", "WYY", "CSARD", "CSARDR", "AAAAAAAA", "AAAAAAA", "GGGG"]
    for n in ([255, 257, 511, 513, 1025] if tier == "quick" else [255, 257, 511, 512, 513, 1023, 1025, 2049]):
        yield {"n": n, "pool": pool, "method": "single", "t": 1}
        yield {"n": n, "pool": pool, "method": "average", "t": 2.5}
    # distances beyond 255 and 65535/256 (long sequences: the metric's values must reach SciPy unreduced)
    longpool = ["A" * 300, "C" * 300, "A" * 150 + "C" * 150, "A" * 300 + "C", "D" * 400, "A" * 299, "CAS" + "G" * 257 + "F"]
    yield {"n": 10, "pool": longpool, "method": "complete", "t": 260}
    yield {"n": 9, "pool": longpool, "method": "average", "t": 150.5}


@st.composite
def graph_case(draw, tier="quick"):
    alpha = draw(st.sampled_from(["ACD", G.AA, G.AA]))
    hamming = draw(st.integers(0, 3)) == 0
    engine = draw(st.sampled_from(["nearest_neighbor", "nearest_neighbor", "kdtree", "hash_based", "kdtree_max_returns", "symdel_against_itself"]))
    k = draw(st.sampled_from([1, 1, 2]))
    if engine == "hash_based":
        k = 1
    seqs = draw(G.clonal_family(alpha=alpha, max_size=30, founder_len=(3, 9), max_edits=2, allow_empty=False))
    if draw(st.booleans()):
        # isolated nodes: far from everything else
        seqs = list(seqs) + ["W" * 14, "Y" * 17][: draw(st.integers(1, 2))]
        seqs = list(draw(st.permutations(seqs)))
    if draw(st.integers(0, 2)) == 0:
        # a group of identical sequences with no other neighbour (their only edges are distance-0 edges)
        seqs = list(seqs) + ["HHHHHHHHHHKKKKKK"] * draw(st.integers(2, 3))
        seqs = list(draw(st.permutations(seqs)))
    if draw(st.integers(0, 3)) == 0:
        # a chain: each member one edit from the next, so the component is a long path (deep trees in a union-find)
        L = draw(st.integers(4, 12))
        base = draw(st.sampled_from(["CASSL", "WWYY", "GQ"]))
        chain = [base + "AAAAAAAAAAAAAAAA"[:i] for i in range(L)]
        seqs = list(draw(st.permutations(list(seqs) + chain)))
    if draw(st.integers(0, 5)) == 0:
        # no neighbour at all: pairwise far-apart sequences
        seqs = [c * (3 + 3 * i) for i, c in enumerate("ACDEF"[:draw(st.integers(1, 5))])]
    case = {"seqs": seqs, "k": k, "engine": engine,
            # the documented choices only ('cc' or one of 'fastgreedy', 'multilevel', 'leiden'); igraph's infomap puts an
            # isolated vertex into the module of another component, which the property does not speak about (DESIGN.md 6)
            "method": draw(st.sampled_from(["cc", "cc", "fastgreedy", "multilevel", "leiden"])),
            "nodes_as": draw(st.sampled_from(["list", "ndarray", "series", "labels"])),
            "adj_as": draw(st.sampled_from(["list", "ndarray"])), "py_seed": draw(st.integers(0, 10 ** 6)),
            "adj_order": draw(st.sampled_from(["as_returned", "as_returned", "ascending", "descending", "interleaved"]))}
    if hamming:
        case["hamming"] = True
    if engine == "kdtree_max_returns":
        case["max_returns"] = draw(st.sampled_from([1, 1, 2]))
        case["k"] = draw(st.sampled_from([1, 2]))
    return case


@st.composite
def hier_case(draw, tier="quick"):
    kind = draw(st.sampled_from(["strings", "table"]))
    case = {"kind": kind, "method": draw(st.sampled_from(["single", "complete", "average", "weighted"])),
            "optimal_ordering": draw(st.booleans()), "criterion": draw(st.sampled_from(["distance", "maxclust"])),
            "use_defaults": draw(st.integers(0, 4)) == 0}
    case["t"] = draw(st.sampled_from([0.5, 1, 1.5, 2, 3, 6])) if case["criterion"] == "distance" else draw(st.integers(1, 5))
    if kind == "strings":
        alpha = draw(st.sampled_from(["AC", "ACD", G.AA]))
        case["seqs"] = draw(G.clonal_family(alpha=alpha, max_size=20, min_size=2, founder_len=(1, 9), max_edits=3))
        case["container"] = draw(st.sampled_from(["list", "ndarray", "series_str", "series_perm"]))
        case["t_int"] = draw(st.sampled_from([1, 2, 3]))
    else:
        n = draw(st.integers(2, 14))
        fa = draw(G.clonal_family(alpha="ACDEF", max_size=n, min_size=n, founder_len=(2, 7), allow_empty=False))
        fb = draw(G.clonal_family(alpha="CASQY", max_size=n, min_size=n, founder_len=(2, 7), allow_empty=False))
        case["rows"] = [[fa[i], fb[i]] for i in range(n)]
        case["cols"] = draw(st.sampled_from(["A", "B", "AB"]))
        case["index"] = draw(st.sampled_from(["default", "str", "rev", "dup"]))
    case["omit_criterion"] = draw(st.integers(0, 3)) == 0
    case["empty_kws"] = draw(st.integers(0, 5)) == 0
    if draw(st.booleans()):
        case["metrics"] = draw(st.lists(st.sampled_from([[1, 1, 1], [1, 1, 2], [2, 1, 1], [1, 3, 1], [3, 2, 2], [25, 40, 1], [60, 70, 3], [50, 40, 60], [100, 100, 100], [300, 1, 1]]), min_size=2, max_size=3))
    return case


SUBS = [
    Sub("graph", check_graph, strategy=lambda t: graph_case(t), budget=(2500, 25000)),
    Sub("hierarchical_large", check_hier_large, enum=enum_hier_large),
    Sub("hierarchical", check_hier, strategy=lambda t: hier_case(t), budget=(2000, 20000)),
]
