"""C11 — kdtree is independent of n_cpu / chunking / compression; max_returns semantics."""
from collections import defaultdict

from hypothesis import strategies as st

from vlib.common import Sub, Violation, call, trip, same_multiset, O, G
from checks.nnlib import pyrepseq, CUSTOM, custom_neighbours_self

PROPERTY = "C11"
QUICK_SCALE = 2
RULE = ("grid: for list sizes 1..N and n_cpu 1..16 (every ratio of list size to worker count, incl. n_cpu > len and chunk "
        "sizes that do not divide the list) x mode in {default, hamming, custom callable}, one kdtree call per grid point on a "
        "deterministic clonal repertoire; random: amino-acid clonal families of 1..40 sequences x n_cpu in 1..16 x compression "
        "in 1..25 x mode x max_returns in {None,1,2,3,5}. Oracle: (i) multiset equality with the n_cpu=1, compression=1 run and "
        "with brute force when max_returns is None; (ii) with max_returns=m, per query: count == min(m, true degree), every "
        "reported triplet is a true neighbour with exact d, and max(reported d) <= min(d of omitted true neighbours). "
        "Non-trivial: n_cpu >= 2 with len % n_cpu != 0 or n_cpu > len, or compression >= 2 with two letters of the input sharing "
        "a bin, or max_returns smaller than some sequence's degree."
        " Also: runs of 127-300 equal (or same-bin) residues under compressions 1/2/10/20/25 (histogram coordinates around 128 and 256).")
ASSUMPTIONS = ["process pools use the fork start method (Linux default): workers inherit the module-level parameter block",
               "Pool.map returns results in submission order, so the observable schedule dimension is the chunking (len, n_cpu); "
               "OS-level interleaving of workers is not controlled by the harness"]


def selftest():
    O.selftest()


def truth(seqs, k, mode, maxc):
    if mode == "default":
        return O.neighbours_self(seqs, k, O.lev)
    if mode == "hamming":
        return O.neighbours_self(seqs, k, O.ham)
    return custom_neighbours_self(seqs, k, mode, maxc)


def kd(seqs, k, mode, maxc, **kw):
    if mode == "default":
        return pyrepseq.kdtree(list(seqs), max_edits=k, **kw)
    if mode == "hamming":
        return pyrepseq.kdtree(list(seqs), max_edits=k, custom_distance="hamming", **kw)
    return pyrepseq.kdtree(list(seqs), max_edits=k, custom_distance=CUSTOM[mode], max_custom_distance=maxc, **kw)


def grid_seqs(n, salt):
    """Deterministic clonal repertoire of n amino-acid strings (mixed lengths, duplicates, indels)."""
    base = ["CASSLGQ", "CASSLGQF", "CASSLAQ", "CASRLGQ", "CASSLGQ", "CSSLGQ", "CASSLGGQ", "WWYY", "WWYA", "WYY",
            "CASSLGQY", "CASSIGQ", "AASSLGQ", "CASSLG", "ASSLGQ", "WWYYA"]
    out = []
    for i in range(n):
        out.append(base[(i * 7 + salt) % len(base)])
    # a few sequences that are new in (almost) every call: one-substitution neighbours of pool members, so that consecutive
    # calls in one process see overlapping but not identical lists
    for i in range(min(4, n)):
        s = base[(i + salt) % len(base)]
        pos = (n + i) % len(s)
        out[(i * 5) % n] = s[:pos] + G.AA[(n * 3 + i * 7 + salt) % 20] + s[pos + 1:]
    return out


def check(case, rec):
    seqs = case["seqs"] if "seqs" in case else grid_seqs(case["n"], case.get("salt", 0))
    k, mode = case["k"], case["mode"]
    maxc = float(case.get("maxc", "inf"))
    n_cpu, comp, m = case.get("n_cpu", 1), case.get("compression", 1), case.get("max_returns")
    want = truth(seqs, k, mode, maxc)
    deg = defaultdict(list)
    for i, j, d in want:
        deg[i].append((j, d))
    cl = [mode, f"n_cpu={'1' if n_cpu == 1 else ('>len' if n_cpu > len(seqs) else 'multi')}"]
    nt = False
    if n_cpu >= 2 and (len(seqs) % n_cpu != 0 or n_cpu > len(seqs)):
        cl.append("uneven_chunks")
        nt = True
    if comp >= 2:
        letters = set("".join(seqs))
        bins = {G.AA.index(c) // comp for c in letters if c in G.AA}
        if len(bins) < len(letters):
            cl.append("letters_share_bin")
            nt = True
    if m is not None and any(len(v) > m for v in deg.values()):
        cl.append("max_returns_truncates")
        nt = True
    rec.note(case, nt, cl)
    kw = dict(n_cpu=n_cpu, compression=comp)
    if m is not None:
        kw["max_returns"] = m
    got = trip(call("kdtree", kd, seqs, k, mode, maxc, **kw))
    ctx = f"mode={mode} k={k} n={len(seqs)} n_cpu={n_cpu} compression={comp} max_returns={m}"
    if m is None:
        same_multiset("config-vs-oracle", got, want, ctx)
        if comp == 1:
            # (for compressed runs the brute-force oracle alone decides: an uncompressed reference run in between would
            #  reset whatever the code under test remembers from one compressed call to the next)
            ref = trip(call("kdtree-ref", kd, seqs, k, mode, maxc, n_cpu=1, compression=1))
            same_multiset("config-vs-reference-run", got, ref, ctx)
        return
    wantset = set(want)
    per = defaultdict(list)
    for t in got:
        if t not in wantset:
            raise Violation("max_returns-spurious", f"{ctx}: reported {t} is not a true neighbour with that distance")
        per[t[0]].append(t)
    if len(set(got)) != len(got):
        raise Violation("max_returns-repeat", f"{ctx}: a triplet is reported twice")
    for i in range(len(seqs)):
        exp = min(m, len(deg.get(i, [])))
        if len(per.get(i, [])) != exp:
            raise Violation("max_returns-count", f"{ctx}: sequence {i} reports {len(per.get(i, []))} neighbours, expected {exp}")
        if per.get(i):
            worst = max(t[2] for t in per[i])
            rep = {t[1] for t in per[i]}
            omitted = [d for j, d in deg[i] if j not in rep]
            if omitted and min(omitted) < worst:
                raise Violation("max_returns-not-nearest", f"{ctx}: sequence {i} omits a neighbour at {min(omitted)} but reports one at {worst}")


def dense_seqs(n):
    """All single substitutions of one founder (truncated to n): every pair is within distance 2."""
    f = "CASSLGQAYEQY"
    out = [f]
    for i in range(len(f)):
        for a in G.AA:
            if a != f[i]:
                out.append(f[:i] + a + f[i + 1:])
    return out[:n]


def enum_dense(tier):
    for n, n_cpu, m, k in ((150, 2, 3, 2), (229, 3, 2, 2), (229, 1, 4, 1), (150, 4, None, 1)):
        yield {"seqs": dense_seqs(n), "k": k, "mode": "default", "n_cpu": n_cpu, **({"max_returns": m} if m else {})}
    yield {"seqs": dense_seqs(140), "k": 2, "mode": "hamming", "n_cpu": 2, "max_returns": 2}
    for comp in (10, 13, 20):
        yield {"seqs": dense_seqs(100), "k": 1, "mode": "default", "n_cpu": 1, "max_returns": 2, "compression": comp}
        yield {"seqs": dense_seqs(80), "k": 2, "mode": "default", "n_cpu": 2, "max_returns": 5, "compression": comp}


def long_run_seqs(L, c, o, style):
    """Sequences dominated by one residue (or by two residues that share a histogram bin under compression), lengths around L."""
    if style == "mono":
        return [c * L, c * (L + 1), c * (L - 1) + o, o + c * L, c * (L // 2) + o + c * (L - L // 2), c * (L + 2), "CAS" + c * L + "F", "CAS" + c * (L + 1) + "F"]
    h = L // 2
    return [c * h + o * (L - h), c * h + o * (L - h + 1), c * (h + 1) + o * (L - h), c * h + o * (L - h - 1) + c, o * (L - h) + c * h, c * (h - 1) + o * (L - h + 1)]


def enum_long_runs(tier):
    """Histogram coordinates around 127/128 and 255/256 (a narrow counter wraps there), for several compressions: with
    compression >= 20 every residue falls into one bin, with 10..19 'A' and 'C' share one, with 1 only a homopolymer gets there."""
    Ls = [255, 256] if tier == "quick" else [127, 128, 129, 254, 255, 256, 257, 300]
    for idx, L in enumerate(Ls):
        for j, comp in enumerate([1, 2, 10, 20, 25] if tier == "thorough" else [1, 10, 20, 25]):
            style = "mono" if comp in (1, 2) or (idx + j) % 2 else "pair"
            mode = ["default", "hamming", "default"][(idx + j) % 3]
            yield {"seqs": long_run_seqs(L, "A", "C", style), "k": 1 + (idx + j) % 2, "mode": mode, "compression": comp, "n_cpu": 1 + (j % 2)}


def enum_grid(tier):
    if tier == "quick":
        sizes = [1, 2, 3, 4, 5, 7, 9, 12, 16, 17, 23]
        cpus = [1, 2, 3, 4, 5, 8, 16]
    else:
        sizes = list(range(1, 41))
        cpus = list(range(1, 17))
    for n in sizes:
        for c in cpus:
            mode = ["default", "hamming", "double", "tenths"][(n + c) % 4]
            yield {"n": n, "salt": (3 * n + c) % 16, "n_cpu": c, "k": 1 + (n + c) % 2, "mode": mode}
            # the same pool of sequences under compressions that share a histogram dimension (5/6 -> 4 bins, 7/8/9 -> 3, ...)
            yield {"n": n, "salt": (3 * n + c) % 16, "n_cpu": 1 + (c > 4), "k": 1 + (n % 3 == 0), "mode": mode,
                   "compression": [5, 6, 7, 8, 9, 10, 13, 19][(n + c) % 8]}
            if tier == "thorough":
                mode2 = ["default", "hamming", "double", "tenths"][(n + c + 1) % 4]
                yield {"n": n, "salt": (n + 5 * c) % 16, "n_cpu": c, "k": 2, "mode": mode2, "compression": 1 + (n * c) % 7}


@st.composite
def random_case(draw, tier="quick"):
    alpha = draw(st.sampled_from(["AC", "ACD", "AWY", G.AA, G.AA]))
    mode = draw(st.sampled_from(["default", "default", "hamming", "double", "lenpen", "blocks", "tenths", "tenths"]))   # tenths: values not exact in float32
    seqs = draw(G.clonal_family(alpha=alpha, max_size=40, founder_len=(2, 9), max_edits=3,
                                allow_empty=True))
    if draw(st.integers(0, 3)) == 0:
        # one sequence occurring 3-5 times (every copy is a distance-0 neighbour of every other copy)
        dup = draw(st.sampled_from(seqs))
        seqs = list(draw(st.permutations(list(seqs) + [dup] * draw(st.integers(2, 4)))))
    case = {"seqs": seqs, "k": draw(st.sampled_from([1, 2, 2, 3])), "mode": mode}
    if mode not in ("default", "hamming"):
        case["maxc"] = draw(st.sampled_from(["inf", "inf", "0", "1", "2", "3.5", "4"]))
    which = draw(st.sampled_from(["cpu", "compression", "max_returns", "all"]))
    if which in ("cpu", "all"):
        case["n_cpu"] = draw(st.integers(2, 16))
    if which in ("compression", "all"):
        case["compression"] = draw(st.integers(1, 25))
    if which in ("max_returns", "all"):
        case["max_returns"] = draw(st.sampled_from([1, 2, 3, 5]))
    return case


SUBS = [
    Sub("grid", check, enum=enum_grid),
    Sub("dense", check, enum=enum_dense),
    Sub("long_runs", check, enum=enum_long_runs),
    Sub("random", check, strategy=lambda tier: random_case(tier), budget=(900, 9000)),
]
