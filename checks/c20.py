"""C20 — calls are pure: arguments stay untouched and results ignore call history."""
import inspect
import json
import os
import subprocess
import sys
from concurrent.futures import ThreadPoolExecutor

from hypothesis import strategies as st
from hypothesis.stateful import RuleBasedStateMachine, rule

from vlib import boot
from vlib.common import Sub, Violation
from vlib.core import canon
from checks import c20_catalogue as CAT

pyrepseq = CAT.pyrepseq

PROPERTY = "C20"
RULE = (f"a catalogue of {len(CAT.NAMES)} representative public-API calls from every module (search incl. kdtree with a process pool, "
        "database objects and the tcrdist stand-in; long-lived metric and database objects created at start-up and re-used between other calls; statistics; pcDelta family incl. seeded maxseqs; neighbour utilities; metrics; "
        "clustering; io; util; entropy; plotting incl. similarity_clustermap with default / caller-supplied cbar_kws / "
        "caller-supplied norm) and calls that raise. Histories: rule-based state machine drawing 2-15 calls per history; every "
        "ordered pair (A, B) of catalogue calls is enumerated as well (all of them in the thorough tier, a seeded sample in "
        "quick). After every call: (1) a deep canonical snapshot of every argument object equals the snapshot taken before the "
        "call; (2) the canonical result equals the result of the same call executed ALONE in a fresh interpreter (references are "
        "computed by one subprocess per call at start-up); a mismatch is only reported after it has been reproduced in a fresh "
        "interpreter by a concrete history, which is then delta-minimised. Changed __defaults__ are recorded as a diagnostic. "
        "Non-trivial: history with >= 3 calls from >= 2 modules incl. >= 1 raising call or >= 1 call touching known mutable "
        "state (kdtree, similarity_clustermap, hierarchical_clustering, tcrdist, seeded random calls).")
ASSUMPTIONS = ["'any sequence of other pyrepseq calls' is explored over a fixed catalogue of representative calls",
               "community-detection calls draw from igraph's RNG and are checked for argument purity only",
               "figures are compared through their drawn data, colour-bar ticks and axis labels, never pixels"]

REFS = {}
PROCESS_LOG = []
STATEFUL = {"background", "standardize_shared_mapper", "standardize_mapper", "colors_tableau_seeded", "colors_tableau_many_seeded", "colors_hls_many_labels_seeded", "rankfrequency_ndarray_counts",
            "persistent_tcr_metrics", "persistent_string_metrics", "persistent_pcDelta_metric", "persistent_symdeldb",
            "persistent_symdeldb_hamming", "persistent_lookupdb_k2", "persistent_lookupdb_k1", "hierarchical_two_sequences_default", "hierarchical_large_default", "tcr_metric_objects_coexist", "multimerge_inner",
            "count_arrays", "pc_conditional_weight_array", "hierarchical_default_table", "nn_default_other_content", "symdel_k2_other_content_ndarray", "kdtree_ndarray_other_content",
            "kdtree_series_ncpu2_hamming", "kdtree", "kdtree_ncpu2", "kdtree_hamming_ncpu3", "kdtree_custom", "clustermap_default", "clustermap_cbar_kws", "clustermap_norm",
            "clustermap_single_chain_meta", "hierarchical_default", "tcrdist_default_kwargs", "tcrdist_both", "colors_hls_seeded",
            "seqlogos", "subsample_seeded", "pcDelta_maxseqs_seeded", "downsample_seeded",
            "mle_exact_fit_fails_raises", "undefined_estimates_are_nan", "tcr_metric_cdr_unknown_v_raises", "tcr_metric_alpha_cdr_unknown_v_raises", "tcr_metric_cdr", "clustermap_short_mapper_list"}


def _fresh(history):
    """Run a history in a fresh interpreter; returns the list of canonical outputs (one per call)."""
    env = dict(os.environ, PYTHONHASHSEED="0")
    r = subprocess.run([sys.executable, os.path.join(boot.VERIF, "checks", "c20_ref.py")] + list(history),
                       capture_output=True, text=True, env=env, cwd=boot.VERIF)
    for line in r.stdout.splitlines():
        if line.startswith("C20REF "):
            return json.loads(line[7:])
    raise RuntimeError(f"reference run failed for {history}: {r.stdout[-500:]} {r.stderr[-1500:]}")


def refs_path(work=None):
    from vlib.core import out_dir
    return os.path.join(work or os.path.join(out_dir(), ".work", PROPERTY), "refs.json")


def prepare(work, tier):
    """Parent process: one fresh interpreter per catalogue call (16 at a time)."""
    with ThreadPoolExecutor(16) as ex:
        outs = list(ex.map(lambda n: _fresh([n])[0], CAT.NAMES))
    refs = {n: o for n, o in zip(CAT.NAMES, outs)}
    with open(refs_path(work), "w") as f:
        json.dump(refs, f)


def ref(name):
    if not REFS:
        p = refs_path()
        if os.path.exists(p):
            with open(p) as f:
                REFS.update(json.load(f))
    if name not in REFS:
        REFS[name] = _fresh([name])[0]
    return REFS[name]


def selftest():
    # the reference of a deterministic call must itself be reproducible
    a, b = _fresh(["pc_list"])[0], _fresh(["pc_list"])[0]
    if a != b:
        raise RuntimeError("fresh-interpreter references are not reproducible")


def defaults_snapshot():
    snap = {}
    for modname in ("nn", "distance", "stats", "io", "util", "clustering", "entropy", "plotting"):
        mod = getattr(pyrepseq, modname)
        for n, f in inspect.getmembers(mod, inspect.isfunction):
            if f.__module__ != mod.__name__:
                continue
            snap[f"{modname}.{n}"] = canon([CAT.canon_value(list(f.__defaults__ or ())), CAT.canon_value(f.__kwdefaults__ or {})])
    return snap


DEFAULTS0 = None


def confirm_and_minimise(name, kind, local_history):
    """A mismatch was seen in this (long-lived) process. Reproduce it in a fresh interpreter with a concrete
    history and delta-minimise that history. Returns the minimal history or None if it cannot be reproduced."""
    want = ref(name)
    if (name, kind) in CONFIRMED:
        return CONFIRMED[(name, kind)]

    def fails(hist):
        outs = _fresh(list(hist) + [name])
        return outs[-1] != want if kind == "history-dependence" else not outs[-1].get("_args_ok", True)

    for cand in (list(local_history), list(PROCESS_LOG)):
        cand = cand[-60:]
        if not fails(cand):
            continue
        # ddmin (bounded)
        hist = list(cand)
        n = 2
        budget = 60
        while len(hist) >= 1 and budget > 0:
            chunk = max(1, len(hist) // n)
            reduced = False
            for i in range(0, len(hist), chunk):
                trial = hist[:i] + hist[i + chunk:]
                budget -= 1
                if fails(trial):
                    hist = trial
                    n = max(n - 1, 2)
                    reduced = True
                    break
                if budget <= 0:
                    break
            if not reduced:
                if chunk == 1:
                    break
                n = min(len(hist), n * 2)
        CONFIRMED[(name, kind)] = hist
        return hist
    CONFIRMED[(name, kind)] = None
    return None


def step(name, local_history):
    """Execute one call inside the current process and check both invariants."""
    out, args_ok, (before, after) = CAT.run_spec(name)
    PROCESS_LOG.append(name)
    if not args_ok:
        # argument mutation is a property of the single call: confirm alone in a fresh interpreter
        if ("args", name) not in CONFIRMED:
            CONFIRMED[("args", name)] = not _fresh([name])[0].get("_args_ok", True)
        if CONFIRMED[("args", name)]:
            diff = _first_diff(before, after)
            raise Violation(f"argument-mutated:{name}", f"call {name} modified one of its arguments: {diff}", case={"ops": [name]})
    want = ref(name)
    if out != want:
        hist = confirm_and_minimise(name, "history-dependence", local_history)
        if hist is not None:
            raise Violation(f"history-dependence:{name}",
                            f"after the calls {hist}, {name} returns {str(out)[:300]} but alone in a fresh interpreter {str(want)[:300]}",
                            case={"ops": hist + [name]})
        # not reproducible from any concrete history: do not raise an alarm, but record it
        UNCONFIRMED.append(name)


UNCONFIRMED = []
CONFIRMED = {}


def _first_diff(a, b):
    sa, sb = json.dumps(a, default=str), json.dumps(b, default=str)
    for i, (x, y) in enumerate(zip(sa, sb)):
        if x != y:
            return f"...{sa[max(0, i - 80):i + 80]} -> ...{sb[max(0, i - 80):i + 80]}"
    return f"length {len(sa)} -> {len(sb)}"


def classify(ops):
    mods = {CAT.CATALOGUE[o]["module"] for o in ops}
    raising = any(CAT.CATALOGUE[o]["raises"] for o in ops)
    stateful = any(o in STATEFUL for o in ops)
    return len(ops) >= 3 and len(mods) >= 2 and (raising or stateful), mods


def check_history(case, rec):
    ops = case["ops"]
    nt, mods = classify(ops)
    rec.note(case, nt, [f"len={min(len(ops), 8)}", f"modules={min(len(mods), 5)}"])
    done = []
    n0 = len(UNCONFIRMED)
    for o in ops:
        step(o, done)
        done.append(o)
    if len(UNCONFIRMED) > n0:
        # a mismatch seen in this long-lived process that no concrete history reproduced in a fresh interpreter:
        # never an alarm, but counted so that the evidence shows it
        rec.classes[f"{rec.sub}:unconfirmed_mismatch:{UNCONFIRMED[-1]}"] += 1


def check_pair(case, rec):
    if "ops" in case:     # a confirmed, minimised history written by this sub as a replay file
        return check_history(case, rec)
    a, b = case["pair"]
    rec.note(case, True, [CAT.CATALOGUE[a]["module"] + ">" + CAT.CATALOGUE[b]["module"]])
    step(a, [])
    step(b, [a])


def machine(tier, rec):
    class History(RuleBasedStateMachine):
        STEPS = 15
        NO_SHRINK = True      # in-process shrinking is meaningless once module state is polluted; see confirm_and_minimise
        trace = None

        def __init__(self):
            super().__init__()
            type(self).trace = self.ops = []

        @rule(name=st.sampled_from(CAT.LIGHT))
        def call(self, name):
            step(name, list(self.ops))
            self.ops.append(name)

        def teardown(self):
            if self.ops:
                nt, mods = classify(self.ops)
                rec.note({"ops": list(self.ops)}, nt, [f"len={min(len(self.ops), 8)}", f"modules={min(len(mods), 5)}"])

    return History


def enum_pairs(tier):
    names = CAT.LIGHT
    # heavy calls: as first element only, followed by the calls that share state with them
    for h in CAT.HEAVY:
        for b in ("hierarchical_default", "hierarchical_default_table", "hierarchical_kws_strings", "clustermap_default"):
            yield {"pair": [h, b]}
    if tier == "thorough":
        for a in names:
            for b in names:
                yield {"pair": [a, b]}
        return
    # quick: every call as first and as second element at least a few times, plus all pairs inside the
    # set of calls that touch known mutable state
    hot = sorted(STATEFUL & set(names))
    seen = set()
    for i, a in enumerate(hot):
        for j, b in enumerate(hot):
            if a != b and (i + j) % 2:      # quick: every self-pair and half of the ordered hot pairs (thorough: all pairs)
                continue
            seen.add((a, b))
            yield {"pair": [a, b]}
    k = 0
    for i, a in enumerate(names):
        for j in (1, 7, 19):
            b = names[(i * 5 + j + k) % len(names)]
            k += 1
            if (a, b) not in seen:
                seen.add((a, b))
                yield {"pair": [a, b]}


def check_defaults(case, rec):
    """Diagnostic turned into a check only through observable results: run every call once, then report which
    defaults changed; a changed default is a violation only if some catalogue call's result changes (invariant 2)."""
    global DEFAULTS0
    rec.note(case, True, ["defaults"])
    if DEFAULTS0 is None:
        DEFAULTS0 = defaults_snapshot()
    done = []
    for o in case["ops"]:
        step(o, done)
        done.append(o)
    now = defaults_snapshot()
    changed = sorted(k for k in now if now[k] != DEFAULTS0.get(k))
    if changed:
        # witness calls: every catalogue call of the modules concerned, re-run after the mutation
        for o in CAT.NAMES:
            step(o, done)
            done.append(o)


def enum_defaults(tier):
    yield {"ops": list(CAT.NAMES)}
    yield {"ops": list(reversed(CAT.NAMES))}


SUBS = [
    Sub("pairs", check_pair, enum=enum_pairs),
    Sub("all_then_witness", check_defaults, enum=enum_defaults),
    Sub("history", check_history, machine=machine, budget=(420, 6000)),
]
