"""C04 — hash_based and kdtree return the same exact neighbour set as nearest_neighbor."""
from hypothesis import strategies as st

from vlib.common import Sub, Violation, call, trip, same_multiset, O, G
from checks.nnlib import pyrepseq, hashable_ok

PROPERTY = "C04"
RULE = ("exhaustive: every string of length 0..L over the 3-letter amino-acid sub-alphabets ACD / CDE / AWY (chosen so that "
        "kdtree's composition bins merge or separate the letters under compression 1-3), k=1,2 (k=3 on the full universe for "
        "kdtree, on length<=2 for hash_based); radius-boundary family for kdtree: same-letter multi-substitution pairs whose "
        "composition vectors lie exactly at sqrt(2)*k, k=1..40; random: amino-acid clonal families 1-60 sequences with empty "
        "strings and duplicates, k=1..3 (hash_based k<=2 on strings <= 6). Three-way oracle: engine == brute-force DP == "
        "nearest_neighbor, as multisets. Non-trivial: the true set contains an indel pair next to a repeated letter, or a "
        "pair at distance exactly k >= 2, or a duplicate pair.")
ASSUMPTIONS = ["hash_based is exponential in max_edits; its radius-3 cases are limited to strings of length <= 3",
               "amino-acid alphabet only (kdtree's composition vector is defined on the 20 letters)"]

ENG = {"hash_based": pyrepseq.hash_based, "kdtree": pyrepseq.kdtree}


def selftest():
    O.selftest()


def classify(seqs, k, want):
    cl = []
    for i, j, d in want:
        a, b = seqs[i], seqs[j]
        if len(a) != len(b) and (G.has_run(a) or G.has_run(b)):
            cl.append("indel_next_to_run")
            break
    if k >= 2 and any(d == k for _, _, d in want):
        cl.append("pair_at_radius_k>=2")
    if any(d == 0 for _, _, d in want):
        cl.append("dup_pair")
    if "" in seqs:
        cl.append("empty_string")
    return cl


def seqs_of(case):
    if "seqs" in case:
        return case["seqs"]
    if "boundary" in case:
        n = case["boundary"]
        a, b = case["letters"]
        # composition vectors exactly sqrt(2)*n apart; plus a mixed pair inside the radius
        return [a * n, b * n, a * (n - 1) + b, b + a * (n - 1), a * n + b]
    seqs = O.all_strings(case["alphabet"], case["L"])
    r = case.get("rot", 0) % len(seqs)
    return seqs[r:] + seqs[:r]


def check(case, rec):
    seqs = seqs_of(case)
    k = case["k"]
    kw = {}
    if case["engine"] == "kdtree" and "compression" in case:
        kw["compression"] = case["compression"]
    want = O.neighbours_self(seqs, k, O.lev)
    cl = classify(seqs, k, want)
    rec.note(case, bool(set(cl) & {"indel_next_to_run", "pair_at_radius_k>=2", "dup_pair"}), cl + [case["engine"]])
    got = trip(call("search", ENG[case["engine"]], list(seqs), max_edits=k, **kw))
    same_multiset("engine-vs-oracle", got, want, f"engine={case['engine']} k={k} n={len(seqs)}")
    ref = trip(call("search", pyrepseq.nearest_neighbor, list(seqs), max_edits=k))
    same_multiset("engine-vs-nearest_neighbor", got, ref, f"engine={case['engine']} k={k} n={len(seqs)}")


def enum_cases(tier):
    L = 3 if tier == "quick" else 4
    for alpha in ("ACD", "CDE", "AWY"):
        for k in (1, 2, 3):
            yield {"alphabet": alpha, "L": L + 1, "k": k, "engine": "kdtree", "rot": 3 * k}
            if tier == "thorough":
                for comp in (2, 3, 7):
                    yield {"alphabet": alpha, "L": L, "k": k, "engine": "kdtree", "rot": k, "compression": comp}
            if k <= 2:
                yield {"alphabet": alpha, "L": L if k == 1 else L - 1 + (tier == "thorough"), "k": k,
                       "engine": "hash_based", "rot": 2 * k}
            else:
                yield {"alphabet": alpha, "L": 2, "k": 3, "engine": "hash_based", "rot": 1}
    top = 20 if tier == "quick" else 40
    for n in range(1, top + 1):
        for letters in (("A", "C"), ("W", "Y"), ("C", "D")):
            yield {"boundary": n, "letters": letters, "k": n, "engine": "kdtree"}
            if n > 1:
                yield {"boundary": n, "letters": letters, "k": n - 1, "engine": "kdtree"}


@st.composite
def random_case(draw, tier="quick"):
    engine = draw(st.sampled_from(["hash_based", "kdtree", "kdtree"]))
    alpha = draw(G.alphabet(amino_only=True))
    if engine == "hash_based":
        k = draw(st.sampled_from([1, 1, 2]))
        if k == 1:
            seqs = draw(G.clonal_family(alpha=alpha, max_size=60, cdr3_like=draw(st.booleans())))
        else:
            seqs = draw(G.clonal_family(alpha=alpha, max_size=14, founder_len=(2, 5), max_edits=2))
            seqs = [s[:6] for s in seqs]
        return {"seqs": seqs, "k": k, "engine": engine}
    k = draw(st.sampled_from([1, 2, 2, 3, 3, 4]))
    seqs = draw(G.clonal_family(alpha=alpha, max_size=60, cdr3_like=draw(st.booleans()), max_edits=4))
    case = {"seqs": seqs, "k": k, "engine": engine}
    if draw(st.booleans()):
        case["compression"] = draw(st.sampled_from([1, 2, 3, 5, 20]))
    return case


SUBS = [
    Sub("exhaustive", check, enum=enum_cases),
    Sub("random", check, strategy=lambda tier: random_case(tier), budget=(2500, 30000)),
]
