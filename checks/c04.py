"""C04 — hash_based and kdtree return the same exact neighbour set as nearest_neighbor."""
from hypothesis import strategies as st

from vlib.common import Sub, Violation, call, trip, same_multiset, O, G
from checks.nnlib import pyrepseq, hashable_ok

PROPERTY = "C04"
RULE = ("exhaustive: every string of length 0..L over the 3-letter amino-acid sub-alphabets ACD / CDE / AWY (chosen so that "
        "kdtree's composition bins merge or separate the letters under compression 1-3), k=1,2 (k=3 on the full universe for "
        "kdtree, on all strings of length<=3 over two letters for hash_based); radius-boundary family for kdtree: same-letter multi-substitution pairs whose "
        "composition vectors lie exactly at sqrt(2)*k, k=1..40; random: amino-acid clonal families 1-60 sequences with empty "
        "strings and duplicates, k=1..3 (hash_based k<=2 on strings <= 6). Three-way oracle: engine == brute-force DP == "
        "nearest_neighbor, as multisets. Non-trivial: the true set contains an indel pair next to a repeated letter, or a "
        "pair at distance exactly k >= 2, or a duplicate pair."
        " Also: dense collections (all single substitutions of 1-2 founders), and a prior search of the same sequences in another mode / radius / on a sub-collection before the judged call.")
ASSUMPTIONS = ["hash_based is exponential in max_edits; its radius-3 cases are limited to strings of length <= 3",
               "amino-acid alphabet only (kdtree's composition vector is defined on the 20 letters)"]

ENG = {"hash_based": pyrepseq.hash_based, "kdtree": pyrepseq.kdtree}


def selftest():
    O.selftest()


def classify(seqs, k, want):
    cl = []
    for i, j, d in want:
        a, b = seqs[i], seqs[j]
        if len(a) != len(b) and (G.has_run(a) or G.has_run(b)):
            cl.append("indel_next_to_run")
            break
    if k >= 2 and any(d == k for _, _, d in want):
        cl.append("pair_at_radius_k>=2")
    if any(d == 0 for _, _, d in want):
        cl.append("dup_pair")
    if "" in seqs:
        cl.append("empty_string")
    if len({len(x) for x in seqs}) == 1 and any(d >= 2 for _, _, d in want):
        cl.append("uniform_length_d>=2")
    return cl


def seqs_of(case):
    if "seqs" in case:
        return case["seqs"]
    if "boundary" in case:
        n = case["boundary"]
        a, b = case["letters"]
        # composition vectors exactly sqrt(2)*n apart; plus a mixed pair inside the radius
        return [a * n, b * n, a * (n - 1) + b, b + a * (n - 1), a * n + b]
    seqs = O.all_strings(case["alphabet"], case["L"])
    r = case.get("rot", 0) % len(seqs)
    return seqs[r:] + seqs[:r]


def check(case, rec):
    seqs = seqs_of(case)
    k = case["k"]
    kw = {}
    if case["engine"] == "kdtree" and "compression" in case:
        kw["compression"] = case["compression"]
    want = O.neighbours_self(seqs, k, O.lev)
    cl = classify(seqs, k, want)
    rec.note(case, bool(set(cl) & {"indel_next_to_run", "pair_at_radius_k>=2", "dup_pair"}), cl + [case["engine"]])
    prior = case.get("prior")
    if prior:
        # the engines are interchangeable "for every collection": also when the same process has just searched the same
        # sequences in another mode, with another radius or on a sub-collection (results of the prior call are not judged here)
        pk = dict(max_edits=k)
        if prior == "hamming":
            pk["custom_distance"] = "hamming"
        elif prior == "other_k":
            pk["max_edits"] = 1 if k > 1 else 2
        pseqs = list(seqs)[::2] if prior == "subset" and len(seqs) >= 2 else list(seqs)
        if not (case["engine"] == "hash_based" and pk["max_edits"] > 2 and max((len(x) for x in pseqs), default=0) > 6):
            call("prior-search", ENG[case["engine"]], pseqs, **pk)
    got = trip(call("search", ENG[case["engine"]], list(seqs), max_edits=k, **kw))
    same_multiset("engine-vs-oracle" if not prior else "engine-vs-oracle-after-prior-call", got, want,
                  f"engine={case['engine']} k={k} n={len(seqs)}" + (f" after a {prior} call on the same sequences" if prior else ""))
    if k <= 4 or max(len(x) for x in seqs) <= 12:
        # (symdel enumerates all deletion subsets up to size k: the three-way comparison is skipped for the large radii of
        #  the boundary family, where the brute-force oracle alone decides)
        ref = trip(call("search", pyrepseq.nearest_neighbor, list(seqs), max_edits=k))
        same_multiset("engine-vs-nearest_neighbor", got, ref, f"engine={case['engine']} k={k} n={len(seqs)}")


def check_dense(case, rec):
    """Dense repertoire: all single substitutions of 1-3 founders - hundreds of mutual neighbours, many exactly on the radius, spread
    over many tree leaves / deletion buckets; distances known analytically (G.dense_collection)."""
    k = case["k"]
    seqs, meta = G.dense_collection(case["founders"], case.get("per_founder"), case.get("step", 1))
    want = G.dense_neighbours(meta, k)
    rec.note(case, True, [f"n={len(seqs)}", case["engine"], f"k={k}"])
    got = trip(call("search", ENG[case["engine"]], list(seqs), max_edits=k))
    same_multiset("dense-neighbour-set", got, want, f"engine={case['engine']} k={k} n={len(seqs)} (all substitutions of {case['founders']} founder(s))")


def enum_dense(tier):
    yield {"engine": "kdtree", "founders": 2, "k": 1}
    yield {"engine": "kdtree", "founders": 1, "k": 2}
    yield {"engine": "hash_based", "founders": 1, "k": 1, "per_founder": 80, "step": 3}


def check_planted(case, rec):
    n, k = case["n"], case["k"]
    seqs, fams = G.planted_collection(n, k, case.get("salt", 0), high=True)
    want = G.planted_neighbours(seqs, fams, k, O.lev)
    rec.note(case, True, [f"n={n}", case["engine"]])
    got = trip(call("search", ENG[case["engine"]], list(seqs), max_edits=k))
    same_multiset("planted-neighbour-set", got, want, f"engine={case['engine']} k={k} n={n}")


def enum_planted(tier):
    yield {"n": 2500, "k": 1, "engine": "kdtree", "salt": 1}
    yield {"n": 2500, "k": 2, "engine": "kdtree", "salt": 2}
    yield {"n": 400, "k": 1, "engine": "hash_based", "salt": 3}
    if tier == "thorough":
        yield {"n": 30000, "k": 1, "engine": "kdtree", "salt": 4}
        yield {"n": 3000, "k": 1, "engine": "hash_based", "salt": 5}


def check_long_runs(case, rec):
    """Sequences dominated by one residue (poly-G linkers and the like), run lengths around 127/128 and 255/256."""
    L, c, o = case["L"], case["letter"], case["other"]
    seqs = [c * L, c * (L + 1), c * (L - 1) + o, o + c * L, c * (L // 2) + o + c * (L - L // 2), c * (L + 2), "CAS" + c * L + "F", "CAS" + c * (L + 1) + "F"]
    k = case["k"]
    want = O.neighbours_self(seqs, k, O.lev)
    rec.note(case, True, [f"L={L}", case["engine"]])
    got = trip(call("search", ENG[case["engine"]], list(seqs), max_edits=k))
    same_multiset("long-run-neighbour-set", got, want, f"engine={case['engine']} k={k} run length {L}")


def enum_long_runs(tier):
    for L in (62, 63, 64, 126, 127, 128, 129, 254, 255, 256, 257):
        for letter, other in (("G", "S"), ("A", "W")):
            yield {"L": L, "letter": letter, "other": other, "k": 1 + L % 2, "engine": "kdtree"}
        if L <= 129:
            yield {"L": L, "letter": "G", "other": "S", "k": 1, "engine": "hash_based"}


def enum_cases(tier):
    L = 3 if tier == "quick" else 4
    for alpha in ("ACD", "CDE", "AWY"):
        for k in (1, 2, 3):
            yield {"alphabet": alpha, "L": L + 1, "k": k, "engine": "kdtree", "rot": 3 * k}
            if tier == "thorough":
                for comp in (2, 3, 7):
                    yield {"alphabet": alpha, "L": L, "k": k, "engine": "kdtree", "rot": k, "compression": comp}
            if k <= 2:
                yield {"alphabet": alpha, "L": L if k == 1 else L - 1 + (tier == "thorough"), "k": k,
                       "engine": "hash_based", "rot": 2 * k}
            else:
                # radius 3 needs strings of length 3 to contain distance-3 pairs at all; a 2-letter sub-alphabet keeps
                # the call at 15 queries (each enumerates the full radius-3 ball over the 20 letters)
                yield {"alphabet": alpha[:2], "L": 3, "k": 3, "engine": "hash_based", "rot": 1}
    top = 20 if tier == "quick" else 40
    for n in range(1, top + 1):
        for letters in (("A", "C"), ("W", "Y"), ("C", "D")):
            yield {"boundary": n, "letters": letters, "k": n, "engine": "kdtree"}
            if n > 1:
                yield {"boundary": n, "letters": letters, "k": n - 1, "engine": "kdtree"}


@st.composite
def frame_shift_family(draw, alpha, max_len):
    """All sequences have the SAME length; neighbours arise by frame shifts (one deletion + one insertion), rotations
    and substitutions - the shape in which length-based pruning of an edit ball goes wrong."""
    L = draw(st.integers(2, max_len))
    f = "".join(draw(st.lists(st.sampled_from(alpha), min_size=L, max_size=L)))
    out = [f]
    for _ in range(draw(st.integers(1, 8))):
        kind = draw(st.sampled_from(["shift_left", "shift_right", "inner_shift", "sub", "dup"]))
        b = draw(st.sampled_from(out))
        c = draw(st.sampled_from(alpha))
        if kind == "shift_left":
            out.append(b[1:] + c)
        elif kind == "shift_right":
            out.append(c + b[:-1])
        elif kind == "inner_shift" and L >= 3:
            i = draw(st.integers(0, L - 2))
            j = draw(st.integers(0, L - 2))
            t = b[:i] + b[i + 1:]
            out.append(t[:j] + c + t[j:])
        elif kind == "sub":
            i = draw(st.integers(0, L - 1))
            out.append(b[:i] + c + b[i + 1:])
        else:
            out.append(b)
    return list(draw(st.permutations(out)))


@st.composite
def random_case(draw, tier="quick"):
    engine = draw(st.sampled_from(["hash_based", "kdtree", "kdtree"]))
    alpha = draw(G.alphabet(amino_only=True))
    if engine == "hash_based":
        k = draw(st.sampled_from([1, 1, 1, 1, 2, 2, 2, 2, 1, 1, 2, 2, 1, 2, 2, 3]))
        if k == 3:
            seqs = draw(G.clonal_family(alpha=alpha, max_size=5, founder_len=(0, 3), max_edits=3))
            seqs = [s[:3] for s in seqs]
        elif k == 1:
            seqs = draw(G.clonal_family(alpha=alpha, max_size=60, cdr3_like=draw(st.booleans())))
        else:
            seqs = draw(G.clonal_family(alpha=alpha, max_size=14, founder_len=(2, 5), max_edits=2))
            seqs = [s[:6] for s in seqs]
        if draw(st.integers(0, 3)) == 0 and k < 3:
            seqs = draw(frame_shift_family(alpha, 6 if k == 2 else 12))
        case = {"seqs": seqs, "k": k, "engine": engine}
        if draw(st.integers(0, 2)) == 0 and k < 3:
            case["prior"] = draw(st.sampled_from(["hamming", "other_k", "subset"]))
        return case
    k = draw(st.sampled_from([1, 2, 2, 3, 3, 4]))
    seqs = draw(G.clonal_family(alpha=alpha, max_size=60, cdr3_like=draw(st.booleans()), max_edits=4))
    if draw(st.integers(0, 4)) == 0:
        seqs = draw(frame_shift_family(alpha, 14))
    case = {"seqs": seqs, "k": k, "engine": engine}
    if draw(st.booleans()):
        case["compression"] = draw(st.sampled_from([1, 2, 3, 5, 20]))
    if draw(st.integers(0, 3)) == 0:
        case["prior"] = draw(st.sampled_from(["hamming", "other_k", "subset"]))
    return case


SUBS = [
    Sub("exhaustive", check, enum=enum_cases),
    Sub("planted_large", check_planted, enum=enum_planted),
    Sub("dense", check_dense, enum=enum_dense),
    Sub("long_runs", check_long_runs, enum=enum_long_runs),
    Sub("random", check, strategy=lambda tier: random_case(tier), budget=(2500, 12000)),
]
