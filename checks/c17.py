"""C17 — resampling and power-law utilities conserve counts and honour their bounds."""
import math
from collections import Counter
from fractions import Fraction

import numpy as np
import pandas as pd
import scipy.special
from hypothesis import strategies as st

from vlib import boot
from vlib.common import Sub, Violation, call, must_raise, close, G

pyrepseq = boot.import_pyrepseq()

PROPERTY = "C17"
QUICK_SCALE = 3
DELTA = 1e-12
RULE = ("subsample: the same count object depleted in place between 2-4 calls must be honoured at every call; count vectors (length 1..12, entries 0..30, zeros included) x every kind of n in 0..total (+ n > total must "
        "raise), NumPy seed generated: indices sorted & unique, counts > 0, sum == n, count_i <= original_i; uniformity: for a "
        "small generated vector, M = 20000 seeded draws, per category the sample means of X_i and X_i^2 against the "
        "multivariate-hypergeometric moments with Hoeffding bounds at delta = 1e-12 per comparison; sparse draws (150-1,000 items in "
        "2-1,000 categories, n from 1 to T/20, M = 2500): the number of drawn items in each of up to five category prefixes against the "
        "hypergeometric mean and second moment, same bounds. downsample: lists / arrays / "
        "Series / tables x maxseqs in {None, 0..N+3}: identity (same object) when len <= maxseqs or None, else exactly maxseqs "
        "elements forming a sub-multiset (tables: distinct original rows, unchanged). powerlaw_sample: size 0..10^5, integer "
        "xmin 1..50, alpha in (1, 6]: length, integer-valued, >= xmin, never NaN, and P(X=x) for x = xmin..xmin+4 against the "
        "documented transform with Hoeffding bounds. powerlaw_mle_alpha: closed forms for 'simple' / 'continuitycorrection' "
        "(NaN/inf-aware, 1e-12), 'exact' within bounds and at least as likely as every point of a 3000-point grid. Non-trivial: "
        ">= 3 positive categories with 0 < n < total; maxseqs < N with duplicates; size >= 1000; >= 3 distinct counts >= cmin.")
ASSUMPTIONS = ["statistical comparisons use Hoeffding's inequality (rigorous for bounded variables): each has false-alarm "
               "probability <= 1e-12 on a correct implementation, whatever the seed",
               "NumPy's global RNG is seeded with a generated integer that is part of the case"]


def hoeffding(M, width, delta=DELTA):
    return width * math.sqrt(math.log(2 / delta) / (2 * M))


# ---------------------------------------------------------------------------
def check_subsample(case, rec):
    counts, n, seed = case["counts"], case["n"], case["np_seed"]
    total = sum(counts)
    pos = sum(1 for c in counts if c > 0)
    arr = counts if case.get("as", "list") == "list" else np.array(counts, dtype=np.int64)
    if n > total:
        rec.note(case, True, ["n>total"])
        np.random.seed(seed)
        must_raise("subsample-too-many", pyrepseq.subsample, arr, n)
        return
    rec.note(case, pos >= 3 and 0 < n < total, [f"n={'0' if n == 0 else ('total' if n == total else 'inner')}", f"positive={min(pos, 4)}"])
    np.random.seed(seed)
    idx, cnt = call("subsample", pyrepseq.subsample, arr, n)
    idx, cnt = [int(x) for x in idx], [int(x) for x in cnt]
    ctx = f"subsample({counts}, {n}) seed={seed} -> {idx}, {cnt}"
    if len(idx) != len(cnt):
        raise Violation("subsample-shape", ctx)
    if idx != sorted(set(idx)):
        raise Violation("subsample-indices-not-sorted-unique", ctx)
    if any(c <= 0 for c in cnt):
        raise Violation("subsample-nonpositive-count", ctx)
    if sum(cnt) != n:
        raise Violation("subsample-sum", ctx)
    for i, c in zip(idx, cnt):
        if not (0 <= i < len(counts)) or c > counts[i]:
            raise Violation("subsample-exceeds-original", ctx)


def check_subsample_reuse(case, rec):
    """Multi-round drawing without replacement: the SAME list / array object is depleted in place between calls;
    every call must honour the object's current contents."""
    counts, seed = list(case["counts"]), case["np_seed"]
    obj = counts if case.get("as", "list") == "list" else np.array(counts, dtype=np.int64)
    rec.note(case, len(case["draws"]) >= 2 and sum(1 for c in counts if c > 0) >= 2, [case.get("as", "list"), f"rounds={len(case['draws'])}"])
    np.random.seed(seed)
    for rnd, frac in enumerate(case["draws"]):
        cur = [int(x) for x in obj]
        total = sum(cur)
        n = min(total, max(0, int(round(frac * total))))
        idx, cnt = call("subsample", pyrepseq.subsample, obj, n)
        idx, cnt = [int(x) for x in idx], [int(x) for x in cnt]
        ctx = f"round {rnd}: subsample({cur}, {n}) -> {idx}, {cnt}"
        if sum(cnt) != n or idx != sorted(set(idx)) or any(c <= 0 for c in cnt):
            raise Violation("subsample-reuse-conservation", ctx)
        for i, c in zip(idx, cnt):
            if not (0 <= i < len(cur)) or c > cur[i]:
                raise Violation("subsample-reuse-exceeds-current", ctx)
            obj[i] -= c                      # deplete the same object in place
    left = sum(int(x) for x in obj)
    np.random.seed(seed)
    must_raise("subsample-reuse-too-many", pyrepseq.subsample, obj, left + 1)


def check_subsample_uniform(case, rec):
    counts, n, seed, M = case["counts"], case["n"], case["np_seed"], case["draws"]
    T = sum(counts)
    K = len(counts)
    rec.note(case, sum(1 for c in counts if c > 0) >= 2 and 0 < n < T, [f"T={T}", f"n={n}"])
    s1 = np.zeros(K)
    s2 = np.zeros(K)
    sx = np.zeros((K, K))
    np.random.seed(seed)
    for _ in range(M):
        idx, cnt = pyrepseq.subsample(counts, n)
        x = np.zeros(K)
        x[np.asarray(idx, dtype=int)] = cnt
        s1 += x
        s2 += x * x
        sx += np.outer(x, x)
    for i in range(K):
        ci = counts[i]
        hi = min(ci, n)
        e1 = n * ci / T
        var = n * (ci / T) * (1 - ci / T) * (T - n) / (T - 1) if T > 1 else 0.0
        e2 = var + e1 * e1
        if abs(s1[i] / M - e1) > hoeffding(M, hi) + 1e-12:
            raise Violation("subsample-mean", f"counts={counts} n={n}: mean of category {i} = {s1[i] / M:.4f}, hypergeometric {e1:.4f} (bound {hoeffding(M, hi):.4f})")
        if abs(s2[i] / M - e2) > hoeffding(M, hi * hi) + 1e-12:
            raise Violation("subsample-second-moment", f"counts={counts} n={n}: E[X^2] of category {i} = {s2[i] / M:.4f}, hypergeometric {e2:.4f} (bound {hoeffding(M, hi * hi):.4f})")
        for j in range(i + 1, K):
            cj = counts[j]
            cov = -n * (ci / T) * (cj / T) * (T - n) / (T - 1) if T > 1 else 0.0
            eij = cov + e1 * (n * cj / T)
            w = min(ci, n) * min(cj, n)
            if abs(sx[i, j] / M - eij) > hoeffding(M, w) + 1e-12:
                raise Violation("subsample-cross-moment", f"counts={counts} n={n}: E[X_{i} X_{j}] = {sx[i, j] / M:.4f}, hypergeometric {eij:.4f}")


def check_subsample_sparse(case, rec):
    """A small draw from a large total (n << T, down to 50 n <= T): every item equally likely means that the number of drawn
    items falling into ANY prefix of the categories is hypergeometric(T, T_prefix, n) - compared on mean and second moment."""
    counts, n, seed, M = case["counts"], case["n"], case["np_seed"], case["draws"]
    T, K = sum(counts), len(counts)
    rec.note(case, K >= 2 and 0 < n < T, [f"K={'<=8' if K <= 8 else '>8'}", f"T/n={'>=50' if T >= 50 * n else '<50'}", case.get("as", "list")])
    arg = np.array(counts) if case.get("as") == "array" else list(counts)
    cum = np.concatenate([[0], np.cumsum(counts)])
    prefixes = sorted({p for p in (1, K // 4, K // 2, (3 * K) // 4, K - 1) if 0 < p < K and 0 < cum[p] < T})
    g1 = np.zeros(len(prefixes))
    g2 = np.zeros(len(prefixes))
    np.random.seed(seed)
    for _ in range(M):
        idx, cnt = pyrepseq.subsample(arg, n)
        idx, cnt = np.asarray(idx, dtype=int), np.asarray(cnt)
        if int(cnt.sum()) != n:
            raise Violation("subsample-sum", f"K={K} T={T} n={n}: {int(cnt.sum())} items drawn")
        for a, pfx in enumerate(prefixes):
            g = float(cnt[idx < pfx].sum())
            g1[a] += g
            g2[a] += g * g
    for a, pfx in enumerate(prefixes):
        Tp = int(cum[pfx])
        hi = min(n, Tp)
        e1 = n * Tp / T
        var = n * (Tp / T) * (1 - Tp / T) * (T - n) / (T - 1)
        e2 = var + e1 * e1
        if abs(g1[a] / M - e1) > hoeffding(M, hi) + 1e-12:
            raise Violation("subsample-sparse-mean", f"K={K} T={T} n={n}: the first {pfx} categories ({Tp} items) receive {g1[a] / M:.4f} items "
                                                     f"per draw, hypergeometric {e1:.4f} (bound {hoeffding(M, hi):.4f}, {M} draws)")
        if abs(g2[a] / M - e2) > hoeffding(M, hi * hi) + 1e-12:
            raise Violation("subsample-sparse-second-moment", f"K={K} T={T} n={n}: E[G^2] for the first {pfx} categories = {g2[a] / M:.4f}, hypergeometric {e2:.4f}")


# ---------------------------------------------------------------------------
def check_downsample(case, rec):
    elems, m, seed, how = case["elems"], case["maxseqs"], case["np_seed"], case["as"]
    n = len(elems)
    if how == "table":
        labels = [f"r{i}" for i in range(n)][::-1]
        if case.get("dup_index"):
            labels = [f"r{i // 2}" for i in range(n)]      # e.g. a table made by pd.concat without ignore_index
        obj = pd.DataFrame({"CDR3B": elems, "rowid": list(range(n))}, index=labels)
    else:
        obj = G.materialise(elems, how)
    trunc = m is not None and n > m
    dup = len(set(elems)) < n
    rec.note(case, trunc and dup, [how, "truncating" if trunc else "identity"])
    before = obj.copy() if hasattr(obj, "copy") else list(obj)
    np.random.seed(seed)
    out = call("downsample", pyrepseq.downsample, obj, m)
    if not trunc:
        if out is not obj:
            # an equal copy is as good as the object itself ("returns its input unchanged")
            same = out.equals(obj) if how == "table" else (type(out) is type(obj) and len(out) == len(obj) and list(out) == list(obj))
            if not same:
                raise Violation("downsample-not-identity", f"len={n} maxseqs={m}: input not returned unchanged")
        return
    if len(out) != m:
        raise Violation("downsample-size", f"len={n} maxseqs={m}: returned {len(out)} elements")
    if how == "table":
        ids = list(out["rowid"])
        if len(set(ids)) != len(ids):
            raise Violation("downsample-row-repeated", f"rows {ids}")
        for rid, lab, s in zip(ids, out.index, out["CDR3B"]):
            if not (0 <= rid < n) or elems[rid] != s or obj.index[rid] != lab:
                raise Violation("downsample-row-altered", f"row {rid}: {s!r} / {lab!r}")
        if not before.equals(obj):
            raise Violation("downsample-mutates-input", "table changed")
    else:
        co, ci = Counter(str(x) for x in out), Counter(elems)
        if any(co[k] > ci.get(k, 0) for k in co):
            raise Violation("downsample-not-sub-multiset", f"{dict(co)} is not a sub-multiset of {dict(ci)}")
        if list(before) != list(obj):
            raise Violation("downsample-mutates-input", "input changed")


def check_downsample_long(case, rec):
    """Tens of thousands of distinct elements, a few hundred kept: still a sub-multiset (no element twice)."""
    n, m, how = case["n"], case["maxseqs"], case["as"]
    elems = [f"S{i}" for i in range(n)]
    obj = elems if how == "list" else (np.array(elems) if how == "ndarray" else pd.Series(elems, index=range(7, 7 + n)))
    rec.note(case, True, [how, f"ratio={n // m}"])
    np.random.seed(case["np_seed"])
    out = [str(x) for x in call("downsample", pyrepseq.downsample, obj, m)]
    if len(out) != m:
        raise Violation("downsample-size", f"len={n} maxseqs={m}: returned {len(out)} elements")
    if len(set(out)) != len(out):
        raise Violation("downsample-not-sub-multiset", f"len={n} maxseqs={m}: an element of a duplicate-free input is returned twice")
    if not set(out) <= set(elems):
        raise Violation("downsample-not-sub-multiset", "foreign element returned")


@st.composite
def downsample_long_case(draw, tier="quick"):
    return {"n": draw(st.sampled_from([5000, 20000, 40000])), "maxseqs": draw(st.sampled_from([40, 150, 300])),
            "np_seed": draw(st.integers(0, 2 ** 32 - 1)), "as": draw(st.sampled_from(["list", "ndarray", "series"]))}


def check_downsample_uniform(case, rec):
    """'a random sub-sample': over M seeded draws every position must be kept with probability maxseqs/N."""
    n, m, M, how = case["n"], case["maxseqs"], case["draws"], case["as"]
    elems = [f"CASS{i:02d}F" for i in range(n)]
    if how == "table":
        obj = pd.DataFrame({"CDR3B": elems, "rowid": list(range(n))}, index=[f"r{i}" for i in range(n)])
    else:
        obj = G.materialise(elems, how)
    rec.note(case, 0 < m < n, [how])
    kept = np.zeros(n)
    np.random.seed(case["np_seed"])
    for _ in range(M):
        out = pyrepseq.downsample(obj, m)
        ids = list(out["rowid"]) if how == "table" else [int(str(x)[4:6]) for x in out]
        for i in ids:
            kept[i] += 1
    b = hoeffding(M, 1.0)
    for i in range(n):
        if abs(kept[i] / M - m / n) > b + 1e-12:
            raise Violation("downsample-not-uniform", f"{how}: position {i} of {n} kept with frequency {kept[i] / M:.4f}, expected {m / n:.4f} (bound {b:.4f}, {M} draws)")


# ---------------------------------------------------------------------------
def check_powerlaw_sample(case, rec):
    size, xmin, alpha, seed = case["size"], case["xmin"], case["alpha"], case["np_seed"]
    rec.note(case, size >= 1000, [f"size={'0' if size == 0 else ('<1000' if size < 1000 else '>=1000')}", f"alpha={'<1.5' if alpha < 1.5 else '>=1.5'}"])
    np.random.seed(seed)
    x = np.asarray(call("powerlaw_sample", pyrepseq.powerlaw_sample, size=size, xmin=xmin, alpha=alpha))
    if x.shape != (size,):
        raise Violation("powerlaw_sample-length", f"size={size}: shape {x.shape}")
    if size == 0:
        return
    if np.isnan(x).any():
        raise Violation("powerlaw_sample-nan", f"xmin={xmin} alpha={alpha}: NaN drawn")
    fin = x[np.isfinite(x)]
    if (x[~np.isfinite(x)] < 0).any():
        raise Violation("powerlaw_sample-neginf", "negative infinity drawn")
    if fin.size and (fin != np.floor(fin)).any():
        raise Violation("powerlaw_sample-not-integer", f"xmin={xmin} alpha={alpha}: non-integer value {fin[fin != np.floor(fin)][0]!r}")
    if fin.size and fin.min() < xmin:
        raise Violation("powerlaw_sample-below-xmin", f"xmin={xmin} alpha={alpha}: value {fin.min()!r} < xmin")
    if size >= 1000:
        b = hoeffding(size, 1.0)
        for v in range(xmin, xmin + 5):
            p = ((v - 0.5) / (xmin - 0.5)) ** (1 - alpha) - ((v + 0.5) / (xmin - 0.5)) ** (1 - alpha)
            f = float(np.mean(x == v))
            if abs(f - p) > b + 1e-9:
                raise Violation("powerlaw_sample-distribution", f"xmin={xmin} alpha={alpha} size={size}: P(X={v}) observed {f:.5f}, documented transform {p:.5f} (bound {b:.5f})")


def loglik(c, alpha, cmin):
    return -len(c) * math.log(scipy.special.zeta(alpha, cmin)) - alpha * float(np.sum(np.log(c)))


def check_mle(case, rec):
    c, cmin, method = case["c"], case["cmin"], case["method"]
    arr = c if case.get("as", "list") == "list" else np.array(c)
    kept = [x for x in c if x >= cmin]
    rec.note(case, len(set(kept)) >= 3, [method, f"kept={min(len(kept), 5)}"])
    n = len(kept)
    if method in ("simple", "continuitycorrection"):
        den = cmin if method == "simple" else cmin - 0.5
        s = sum(math.log(x / den) for x in kept)
        if s == 0:
            want = float("nan") if n == 0 else float("inf")
        else:
            want = 1.0 + n / s
        got = call("mle", pyrepseq.powerlaw_mle_alpha, arr, cmin=cmin, method=method)
        if not close(got, want, 1e-12):
            raise Violation(f"mle-{method}", f"powerlaw_mle_alpha({c}, cmin={cmin}, {method}) = {got!r}, closed form {want!r}")
        return
    if n == 0:
        return
    lo, hi = case.get("bounds", [1.5, 4.5])
    kw = {} if "bounds" not in case else {"bounds": [lo, hi]}
    got = float(call("mle-exact", pyrepseq.powerlaw_mle_alpha, arr, cmin=cmin, method="exact", **kw))
    if not (lo - 1e-9 <= got <= hi + 1e-9):
        raise Violation("mle-exact-bounds", f"result {got!r} outside [{lo}, {hi}]")
    ka = np.array(kept, dtype=float)
    grid = np.linspace(lo, hi, 3000)
    L = np.array([loglik(ka, a, cmin) for a in grid])
    slope = float(np.max(np.abs(np.diff(L)))) / (grid[1] - grid[0])
    Lg = loglik(ka, got, cmin)
    tol = 1e-7 * abs(float(L.max())) + 3e-5 * slope + 1e-12
    if Lg < L.max() - tol:
        raise Violation("mle-exact-not-maximum", f"c={c} cmin={cmin}: L({got!r}) = {Lg!r} < max over grid {float(L.max())!r} at alpha={grid[int(L.argmax())]!r}")


# ---------------------------------------------------------------------------
@st.composite
def subsample_case(draw, tier="quick"):
    k = draw(st.integers(1, 12))
    counts = draw(st.lists(st.sampled_from([0, 0, 1, 1, 2, 3, 5, 8, 30]), min_size=k, max_size=k))
    total = sum(counts)
    mode = draw(st.sampled_from(["zero", "total", "inner", "inner", "inner", "over"]))
    if mode == "zero":
        n = 0
    elif mode == "total":
        n = total
    elif mode == "over":
        n = total + draw(st.integers(1, 5))
    else:
        n = draw(st.integers(0, total))
    return {"counts": counts, "n": n, "np_seed": draw(st.integers(0, 2 ** 32 - 1)), "as": draw(st.sampled_from(["list", "array"]))}


@st.composite
def reuse_case(draw, tier="quick"):
    k = draw(st.integers(1, 8))
    counts = draw(st.lists(st.sampled_from([0, 1, 1, 2, 3, 5, 8]), min_size=k, max_size=k))
    return {"counts": counts, "np_seed": draw(st.integers(0, 2 ** 32 - 1)), "as": draw(st.sampled_from(["list", "array"])),
            "draws": draw(st.lists(st.sampled_from([0.0, 0.3, 0.5, 0.5, 1.0]), min_size=2, max_size=4))}


@st.composite
def uniform_case(draw, tier="quick"):
    k = draw(st.integers(2, 4))
    counts = draw(st.lists(st.integers(0, 4), min_size=k, max_size=k))
    if sum(counts) < 2:
        counts[0] += 2
    n = draw(st.integers(1, sum(counts) - 1))
    return {"counts": counts, "n": n, "np_seed": draw(st.integers(0, 2 ** 32 - 1)), "draws": 20000}


@st.composite
def sparse_case(draw, tier="quick"):
    fam = draw(st.sampled_from(["ones", "few_big", "mixed"]))
    if fam == "ones":
        counts = [1] * draw(st.integers(150, 1000))
    elif fam == "few_big":
        counts = draw(st.lists(st.integers(60, 600), min_size=2, max_size=6))
    else:
        counts = draw(st.lists(st.sampled_from([0, 1, 1, 1, 2, 40, 300]), min_size=20, max_size=300))
        counts[0] += 60
    T = sum(counts)
    n = draw(st.sampled_from([1, 2, 3, 5, max(1, T // 50), max(1, T // 50 + 1), max(1, T // 20)]))
    return {"counts": counts, "n": min(n, T - 1), "np_seed": draw(st.integers(0, 2 ** 32 - 1)), "draws": 2500,
            "as": draw(st.sampled_from(["list", "array"]))}


@st.composite
def downsample_case(draw, tier="quick"):
    pool = ["CASSL", "CASSF", "CAWY", "CASSL", "C", ""]
    n = draw(st.integers(1, 12))
    elems = draw(st.lists(st.sampled_from(pool), min_size=n, max_size=n))
    how = draw(st.sampled_from(["list", "tuple", "ndarray", "series_default", "series_str", "table"]))
    m = draw(st.sampled_from([None, 0, 1, 2, 3, n - 1, n, n + 1, n + 3]))
    if m is not None and m < 0:
        m = 0
    if how == "tuple" and n == 2:
        how = "list"
    return {"elems": elems, "maxseqs": m, "np_seed": draw(st.integers(0, 2 ** 32 - 1)), "as": how, "dup_index": draw(st.booleans())}


@st.composite
def downsample_uniform_case(draw, tier="quick"):
    n = draw(st.integers(3, 10))
    return {"n": n, "maxseqs": draw(st.integers(1, n - 1)), "draws": 4000, "np_seed": draw(st.integers(0, 2 ** 32 - 1)),
            "as": draw(st.sampled_from(["list", "ndarray", "series_str", "table", "table"]))}


@st.composite
def powerlaw_case(draw, tier="quick"):
    size = draw(st.sampled_from([0, 1, 7, 100, 1000, 20000, 100000]))
    return {"size": size, "xmin": draw(st.integers(1, 50)),
            "alpha": draw(st.sampled_from([1.002, 1.01, 1.05, 1.2, 1.5, 2.0, 2.5, 3.0, 4.5, 6.0]) | st.floats(1.01, 6.0).map(lambda v: round(v, 3))),
            "np_seed": draw(st.integers(0, 2 ** 32 - 1))}


@st.composite
def mle_case(draw, tier="quick"):
    method = draw(st.sampled_from(["simple", "continuitycorrection", "exact"]))
    src = draw(st.sampled_from(["arbitrary", "powerlaw"]))
    if src == "powerlaw":
        # deterministic inverse-transform grid, no RNG involved
        a = draw(st.sampled_from([1.7, 2.0, 2.5, 3.2, 5.0]))
        xm = draw(st.integers(1, 5))
        k = draw(st.integers(3, 60))
        c = [int(math.floor((xm - 0.5) * (1 - (i + 0.5) / k) ** (-1 / (a - 1)) + 0.5)) for i in range(k)]
    else:
        c = draw(st.lists(st.integers(1, 200), min_size=1, max_size=40))
        if draw(st.integers(0, 2)) == 0:
            c = c + [0] * draw(st.integers(1, 3))          # clones that were not observed: below every cmin >= 1
            c = list(draw(st.permutations(c)))
    cmin = draw(st.sampled_from([1, 1, 2, 3, 5, 10]))
    case = {"c": c, "cmin": cmin, "method": method, "as": draw(st.sampled_from(["list", "array"]))}
    if method == "exact" and draw(st.booleans()):
        case["bounds"] = draw(st.sampled_from([[1.1, 6.0], [1.5, 3.0], [2.0, 2.5], [1.01, 10.0]]))
    return case


SUBS = [
    Sub("subsample", check_subsample, strategy=lambda t: subsample_case(t), budget=(4000, 40000)),
    Sub("subsample_reuse", check_subsample_reuse, strategy=lambda t: reuse_case(t), budget=(1500, 15000)),
    Sub("subsample_uniform", check_subsample_uniform, strategy=lambda t: uniform_case(t), budget=(48, 480)),
    Sub("subsample_sparse", check_subsample_sparse, strategy=lambda t: sparse_case(t), budget=(8, 60)),
    Sub("downsample", check_downsample, strategy=lambda t: downsample_case(t), budget=(3000, 30000)),
    Sub("downsample_long", check_downsample_long, strategy=lambda t: downsample_long_case(t), budget=(20, 200)),
    Sub("downsample_uniform", check_downsample_uniform, strategy=lambda t: downsample_uniform_case(t), budget=(32, 320)),
    Sub("powerlaw_sample", check_powerlaw_sample, strategy=lambda t: powerlaw_case(t), budget=(800, 8000)),
    Sub("mle", check_mle, strategy=lambda t: mle_case(t), budget=(1500, 15000)),
]
