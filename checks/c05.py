"""C05 — pcDelta is the exact histogram of all pairwise distances."""
import itertools
import math
from collections import Counter
from fractions import Fraction

import numpy as np
import pandas as pd
from hypothesis import strategies as st

from vlib import boot
from vlib.common import Sub, Violation, call, close, all_close, O, G

pyrepseq = boot.import_pyrepseq()
from pyrepseq.metric import Metric, Levenshtein, WeightedLevenshtein  # noqa: E402
from pyrepseq.metric.tcr_metric import AlphaCdr3Levenshtein, BetaCdr3Levenshtein, Cdr3Levenshtein  # noqa: E402

PROPERTY = "C05"
QUICK_SCALE = 3
RULE = ("collections of 2-40 strings over small alphabets (distance 0 has multiplicity), optional second collection, TCR tables "
        "with alpha-only / beta-only / both CDR3 columns and arbitrary index, legacy 2-tuples; bin edge vectors: strictly "
        "increasing ints or half-integers not necessarily starting at 0, last edge sometimes below the maximum distance; "
        "normalize in {T,F}; pseudocount in {0, 0.5, 1, other}; metric in {None, Levenshtein(), WeightedLevenshtein(w), TCR "
        "CDR3 metrics, a harness-defined Metric subclass}; maxseqs in {None, 0..N+2} with a generated NumPy seed. Oracle: own DP "
        "distances -> own histogram loop (half-open bins, last closed): one collection = unordered pairs i<j, two collections = "
        "full rectangle; normalised = count/total (total 0 => NaN), pseudocount (count+c)/(total+2c); bins=0 == pc; first bin "
        "[0,1) == sum n_i(n_i-1)/2; default metric by input type/columns; maxseqs: total count == C(m,2) (m1*m2) with "
        "m=min(N,maxseqs) and, for N<=9, the histogram is one of the histograms of all size-m sub-multisets; background table: "
        "bins == arange(rows+1) and pcDelta output aligns row by row. Tolerance 1e-12. Non-trivial: >= 3 distinct distances and "
        "(a distance beyond the last edge, or pseudocount > 0, or normalize=False, or a second collection)."
        " Also: bins=0 on every generated table == pc of the same arguments == exact fraction of coinciding whole rows; maxseqs at scale (200-40,000 distinct sequences, 100-400 kept): no pair at distance 0 and exactly C(m,2) / m*m pairs.")
ASSUMPTIONS = ["float comparisons use relative tolerance 1e-12; counts are compared exactly",
               "the sub-multiset oracle for maxseqs does not assume how the code consumes NumPy's RNG"]


class LenHamming(Metric):
    """Harness-defined metric: mismatches on the common prefix + 2 * length difference."""
    name = "LenHamming"

    @staticmethod
    def d(a, b):
        return sum(1 for x, y in zip(a, b) if x != y) + 2 * abs(len(a) - len(b))

    def calc_cdist_matrix(self, anchors, comparisons):
        return np.array([[self.d(a, b) for b in comparisons] for a in anchors], dtype=float).reshape(len(anchors), len(comparisons))

    def calc_pdist_vector(self, instances):
        inst = list(instances)
        return np.array([self.d(inst[i], inst[j]) for i in range(len(inst)) for j in range(i + 1, len(inst))], dtype=float)


def metric_of(spec):
    """returns (metric object or None, oracle distance function on elements)"""
    if spec is None or spec == "default":
        return None, None
    if spec == "lev":
        return Levenshtein(), O.lev
    if spec == "lenham":
        return LenHamming(), LenHamming.d
    if isinstance(spec, list) and spec[0] == "wlev":
        i, d, s = spec[1:]
        return WeightedLevenshtein(i, d, s), (lambda a, b: O.wlev(a, b, i, d, s))
    raise ValueError(spec)


def expected(dists, edges, normalize, pseudo):
    counts = O.hist(dists, edges)
    if not normalize:
        return counts
    tot = sum(counts)
    if not pseudo:
        return [c / tot if tot else float("nan") for c in counts]
    return [(c + pseudo) / (tot + 2 * pseudo) for c in counts]


def cmp_hist(kind, got, want, normalize, ctx):
    got = np.asarray(got)
    if got.ndim != 1:
        raise Violation(kind + "-shape", f"{ctx}: result has shape {got.shape}")
    if not normalize:
        if [int(x) for x in got] != list(want) or any(float(x) != int(x) for x in got):
            raise Violation(kind, f"{ctx}: counts {got.tolist()} != {want}")
        return
    all_close(kind, got.tolist(), want, ctx, 1e-12, 1e-15)


def check_strings(case, rec):
    seqs, seqs2 = case["seqs"], case.get("seqs2")
    edges = case["bins"]
    normalize, pseudo = case.get("normalize", True), case.get("pseudocount", 0)
    mobj, dfun = metric_of(case.get("metric"))
    if dfun is None:
        dfun = O.lev
    if seqs2 is None:
        dists = [dfun(seqs[i], seqs[j]) for i in range(len(seqs)) for j in range(i + 1, len(seqs))]
    else:
        dists = [dfun(a, b) for a in seqs for b in seqs2]
    want = expected(dists, edges, normalize, pseudo)
    cl = ["two" if seqs2 is not None else "one", "norm" if normalize else "raw", f"metric={case.get('metric') if not isinstance(case.get('metric'), list) else 'wlev'}"]
    beyond = any(d > edges[-1] or d < edges[0] for d in dists)
    if beyond:
        cl.append("beyond_edges")
    if pseudo:
        cl.append("pseudocount")
    if any(d >= 256 for d in dists):
        cl.append("distance>=256")
    nt = len(set(dists)) >= 3 and (beyond or bool(pseudo) or not normalize or seqs2 is not None)
    rec.note(case, nt, cl)
    kw = dict(bins=np.array(edges) if case.get("bins_as") == "array" else list(edges), normalize=normalize, pseudocount=pseudo)
    if mobj is not None:
        kw["metric"] = mobj
    a = G.materialise(seqs, case.get("container", "list"))
    b = None if seqs2 is None else G.materialise(seqs2, case.get("container", "list"))
    if case.get("same_object") and seqs2 is not None and list(seqs2) == list(seqs):
        b = a          # pcDelta(x, x): every ordered pair incl. the diagonal, like any other two-collection call
    got = call("pcDelta", pyrepseq.pcDelta, a, b, **kw)
    cmp_hist("histogram", got, want, normalize, f"pcDelta(n={len(seqs)}, n2={None if seqs2 is None else len(seqs2)}, bins={edges}, normalize={normalize}, pseudocount={pseudo})")
    # linked invariants with the default metric
    if case.get("metric") in (None, "default", "lev"):
        p0 = call("pcDelta0", pyrepseq.pcDelta, a, b, bins=0)
        pcv = call("pc", pyrepseq.pc, a, b)
        if not close(p0, pcv, 1e-15):
            raise Violation("bins0-vs-pc", f"pcDelta(bins=0) = {p0!r}, pc = {pcv!r}")
        exact = O.pc_exact(seqs) if seqs2 is None else O.pc_cross_exact(seqs, seqs2)
        if not close(p0, exact, 1e-12):
            raise Violation("bins0-value", f"pcDelta(bins=0) = {p0!r}, exact {exact}")
        # a maxseqs that does not bind (>= both sizes) samples nothing: still pc of the same arguments.  (A binding maxseqs with
        # bins=0 is not asserted: "pc of the same arguments" and "the result of a random sub-sample" are both stated and differ.)
        big = max(len(seqs), len(seqs2) if seqs2 is not None else 0) + len(seqs) % 3
        p0m = call("pcDelta0", pyrepseq.pcDelta, a, b, bins=0, maxseqs=big)
        if not close(p0m, exact, 1e-12):
            raise Violation("bins0-maxseqs-not-binding", f"pcDelta(bins=0, maxseqs={big}) = {p0m!r} on {len(seqs)} sequences, exact {exact}")
        raw = call("pcDelta-raw", pyrepseq.pcDelta, a, b, bins=[0, 1, 2], normalize=False)
        if seqs2 is None:
            zero = sum(v * (v - 1) // 2 for v in Counter(seqs).values())
        else:
            c2 = Counter(seqs2)
            zero = sum(v * c2.get(k, 0) for k, v in Counter(seqs).items())
        if int(raw[0]) != zero:
            raise Violation("distance0-count", f"count in [0,1) = {raw[0]}, expected {zero}")
    if case.get("metric") in (None, "default") and case.get("default_bins"):
        got = call("pcDelta-defaultbins", pyrepseq.pcDelta, a, b)
        want = expected(dists, list(range(25)), True, 0)
        cmp_hist("default-bins", got, want, True, "default bins range(25)")


def sub_multisets(seq, m):
    seen = set()
    for comb in itertools.combinations(range(len(seq)), m):
        key = tuple(sorted(seq[i] for i in comb))
        if key not in seen:
            seen.add(key)
            yield [seq[i] for i in comb]


def check_maxseqs(case, rec):
    seqs, seqs2, m, seed = case["seqs"], case.get("seqs2"), case["maxseqs"], case["np_seed"]
    edges = case["bins"]
    n = len(seqs)
    m1 = min(n, m)
    nt = m < n and len(set(seqs)) >= 2
    rec.note(case, nt, ["two" if seqs2 is not None else "one", "truncating" if m < n else "identity"])
    a = G.materialise(seqs, case.get("container", "list"))
    b = None if seqs2 is None else G.materialise(seqs2, case.get("container", "list"))
    np.random.seed(seed)
    got = call("pcDelta-maxseqs", pyrepseq.pcDelta, a, b, bins=list(edges), normalize=False, maxseqs=m)
    got = [int(x) for x in np.asarray(got)]
    cands = []
    if seqs2 is None:
        for sub in sub_multisets(seqs, m1):
            d = [O.lev(sub[i], sub[j]) for i in range(len(sub)) for j in range(i + 1, len(sub))]
            cands.append(O.hist(d, edges))
    else:
        m2 = min(len(seqs2), m)
        for s1 in sub_multisets(seqs, m1):
            for s2 in sub_multisets(seqs2, m2):
                cands.append(O.hist([O.lev(x, y) for x in s1 for y in s2], edges))
    if got not in cands:
        raise Violation("maxseqs-not-a-subsample", f"maxseqs={m} on {seqs} / {seqs2}: histogram {got} is not the histogram of any size-{m1} sub-sample ({len(cands)} candidates)")
    # total number of pairs with wide bins
    np.random.seed(seed)
    tot = int(np.sum(call("pcDelta-maxseqs", pyrepseq.pcDelta, a, b, bins=[0, 10 ** 6], normalize=False, maxseqs=m)))
    exp = m1 * (m1 - 1) // 2 if seqs2 is None else m1 * min(len(seqs2), m)
    if tot != exp:
        raise Violation("maxseqs-size", f"maxseqs={m}, N={n}: {tot} pairs counted, expected {exp}")


def build_tcr(case):
    rows = case["rows"]
    cols = case["cols"]
    data = {}
    if "A" in cols:
        data["CDR3A"] = [r[0] for r in rows]
    if "B" in cols:
        data["CDR3B"] = [r[1] for r in rows]
    if case.get("with_v"):
        data["TRBV"] = ["TRBV7-2*01"] * len(rows)
        data["clone_count"] = list(range(len(rows)))
    if case.get("extra_cdr3_like"):
        data["CDR3B_nt"] = ["TGTGCC"] * len(rows)      # a metadata column whose name merely starts with CDR3
    df = pd.DataFrame(data)
    if case.get("reverse_columns"):
        df = df[list(df.columns)[::-1]]
    if case.get("index") == "str":
        df.index = [f"c{i}" for i in range(len(df))]
    elif case.get("index") == "rev":
        df.index = list(range(len(df)))[::-1]
    elif case.get("index") == "dup":
        df.index = [i // 2 for i in range(len(df))]
    return df


def tcr_dist(cols):
    def d(r, s):
        t = 0
        if "A" in cols:
            t += O.lev(r[0], s[0])
        if "B" in cols:
            t += O.lev(r[1], s[1])
        return t
    return d


def check_tcr(case, rec):
    rows, rows2, cols = case["rows"], case.get("rows2"), case["cols"]
    edges = case["bins"]
    normalize, pseudo = case.get("normalize", True), case.get("pseudocount", 0)
    d = tcr_dist(cols)
    if rows2 is None:
        dists = [d(rows[i], rows[j]) for i in range(len(rows)) for j in range(i + 1, len(rows))]
    else:
        dists = [d(a, b) for a in rows for b in rows2]
    want = expected(dists, edges, normalize, pseudo)
    rec.note(case, len(set(dists)) >= 3, [f"cols={cols}", case.get("index", "default"), "two" if rows2 else "one", case.get("explicit_metric", "default_metric")])
    df = build_tcr(case)
    df2 = None
    if rows2 is not None:
        c2 = dict(case)
        c2["rows"] = rows2
        df2 = build_tcr(c2)
    before = df.copy(deep=True)
    kw = {}
    if case.get("explicit_metric"):
        kw["metric"] = {"A": AlphaCdr3Levenshtein, "B": BetaCdr3Levenshtein, "AB": Cdr3Levenshtein}[cols]()
    got = call("pcDelta-table", pyrepseq.pcDelta, df, df2, bins=list(edges), normalize=normalize, pseudocount=pseudo, **kw)
    cmp_hist("table-histogram", got, want, normalize, f"pcDelta(table cols={cols}, n={len(rows)})")
    if cols == "AB" and rows2 is None and not case.get("with_v") and not case.get("explicit_metric"):
        tup = ([r[0] for r in rows], [r[1] for r in rows])
        got2 = call("pcDelta-tuple", pyrepseq.pcDelta, tup, bins=list(edges), normalize=normalize, pseudocount=pseudo)
        cmp_hist("tuple-histogram", got2, want, normalize, "legacy (alpha, beta) tuple")
    # bins=0 on tables: pc of the SAME arguments, i.e. whole rows (every column), not of the columns the metric compares
    keys1 = [tuple(str(x) for x in r) for r in df.itertuples(index=False, name=None)]
    if df2 is None:
        cnt = Counter(keys1)
        exact0 = Fraction(sum(c * (c - 1) for c in cnt.values()), len(keys1) * (len(keys1) - 1))
    else:
        keys2 = [tuple(str(x) for x in r) for r in df2.itertuples(index=False, name=None)]
        c1, c2 = Counter(keys1), Counter(keys2)
        exact0 = Fraction(sum(c * c2.get(k, 0) for k, c in c1.items()), len(keys1) * len(keys2))
    p0 = call("pcDelta0-table", pyrepseq.pcDelta, df, df2, bins=0, **kw)
    pcv = call("pc-table", pyrepseq.pc, df, df2)
    if not close(float(p0), float(pcv), 1e-12):
        raise Violation("bins0-vs-pc", f"table cols={list(df.columns)}: pcDelta(bins=0) = {p0!r}, pc of the same arguments = {pcv!r}")
    if not close(float(p0), exact0, 1e-12):
        raise Violation("bins0-value", f"table cols={list(df.columns)}: pcDelta(bins=0) = {p0!r}, exact fraction of coinciding rows = {exact0}")
    if not before.equals(df):
        raise Violation("pcDelta-mutates-input", "table changed")
    # maxseqs on tables: a subset of rows
    if "maxseqs" in case and rows2 is None:
        m = case["maxseqs"]
        np.random.seed(case.get("np_seed", 0))
        tot = int(np.sum(call("pcDelta-table-maxseqs", pyrepseq.pcDelta, df, bins=[0, 10 ** 6], normalize=False, maxseqs=m)))
        m1 = min(len(rows), m)
        if tot != m1 * (m1 - 1) // 2:
            raise Violation("maxseqs-size", f"table maxseqs={m}, N={len(rows)}: {tot} pairs")


def check_sizes(case, rec):
    """Collection sizes around block boundaries (2^k - 1, 2^k, 2^k + 1): every pair must still be counted once."""
    n, n2 = case["n"], case.get("n2")
    pool = case["pool"]
    seqs = [pool[(i * 7 + i // 3) % len(pool)] for i in range(n)]
    rec.note(case, True, [f"n={n}", "two" if n2 else "one"])
    memo = {}

    def d(a, b):
        k = (a, b) if a <= b else (b, a)
        if k not in memo:
            memo[k] = O.lev(a, b)
        return memo[k]
    edges = [0, 1, 2, 3, 5, 9]
    c1 = Counter(seqs)
    if n2:
        seqs2 = [pool[(i * 5 + 1) % len(pool)] for i in range(n2)]
        c2 = Counter(seqs2)
        dist_counts = Counter()
        for a, ca in c1.items():
            for b, cb in c2.items():
                dist_counts[d(a, b)] += ca * cb
        got = call("pcDelta-sizes", pyrepseq.pcDelta, list(seqs), list(seqs2), bins=edges, normalize=False)
    else:
        dist_counts = Counter()
        items = sorted(c1)
        for i, a in enumerate(items):
            dist_counts[0] += c1[a] * (c1[a] - 1) // 2
            for b in items[i + 1:]:
                dist_counts[d(a, b)] += c1[a] * c1[b]
        got = call("pcDelta-sizes", pyrepseq.pcDelta, list(seqs), bins=edges, normalize=False)
    want = [0] * (len(edges) - 1)
    for dist, cnt in dist_counts.items():
        for b in range(len(edges) - 1):
            last = b == len(edges) - 2
            if edges[b] <= dist < edges[b + 1] or (last and dist == edges[-1]):
                want[b] += cnt
    cmp_hist("sizes-histogram", got, want, False, f"n={n} n2={n2}")


def check_maxseqs_large(case, rec):
    """maxseqs far below the collection size (N >= 20 * maxseqs and beyond): the histogram is that of maxseqs DISTINCT positions.
    All N strings are different, so a position drawn twice is the only way to see a pair at distance 0."""
    n, m, seed = case["n"], case["maxseqs"], case["np_seed"]
    seqs = [G.codeword(i, 1) for i in range(n)] if case.get("codewords") else ["CAS" + format(i, "05d").translate(DIGITS) + "F" for i in range(n)]
    rec.note(case, n >= 20 * m and m >= 100, [f"n={n}", f"m={m}", case["container"], "two" if case.get("two") else "one"])
    a = G.materialise(seqs, case["container"])
    np.random.seed(seed)
    if case.get("two"):
        other = G.materialise(["CAW" + s[3:] for s in seqs], case["container"])
        got = call("pcDelta-maxseqs", pyrepseq.pcDelta, a, other, bins=[0, 1, 10 ** 6], normalize=False, maxseqs=m)
        # cross pairs: distance >= 1 always (third letter differs); distinct positions on both sides => at most m pairs at distance 1
        tot = int(np.sum(got))
        if tot != m * m:
            raise Violation("maxseqs-size", f"two collections of {n}, maxseqs={m}: {tot} pairs counted, expected {m * m}")
        if int(got[0]) != 0:
            raise Violation("maxseqs-not-a-subsample", f"two collections of {n}, maxseqs={m}: {int(got[0])} cross pairs at distance 0")
        return
    got = call("pcDelta-maxseqs", pyrepseq.pcDelta, a, bins=[0, 1, 10 ** 6], normalize=False, maxseqs=m)
    tot = int(np.sum(got))
    if tot != m * (m - 1) // 2:
        raise Violation("maxseqs-size", f"N={n} maxseqs={m}: {tot} pairs counted, expected {m * (m - 1) // 2}")
    if int(got[0]) != 0:
        raise Violation("maxseqs-not-a-subsample", f"N={n} distinct sequences, maxseqs={m}: {int(got[0])} pairs at distance 0 - some position was drawn more than once")


DIGITS = str.maketrans("0123456789", "ACDEGHIKLM")


@st.composite
def maxseqs_large_case(draw, tier="quick"):
    m = draw(st.sampled_from([100, 150, 200, 300, 400]))
    n = m * draw(st.sampled_from([2, 5, 19, 20, 21, 40, 100]))
    return {"n": n, "maxseqs": m, "np_seed": draw(st.integers(0, 2 ** 31 - 1)), "container": draw(st.sampled_from(["list", "ndarray", "series_str"])),
            "two": draw(st.integers(0, 3)) == 0}


def enum_sizes(tier):
    sizes = [31, 32, 33, 63, 64, 65, 127, 128, 129, 255, 256, 257, 511, 512, 513] + ([1023, 1024, 1025, 2047, 2048, 2049] if tier == "thorough" else [1025])
    pool = ["A", "AC", "CA", "AAC", "ACC", "CCA", "AACC", "C", "CCCC", ""]
    for n in sizes:
        yield {"n": n, "pool": pool}
        yield {"n": n, "n2": 3, "pool": pool}
        if n <= 129:
            yield {"n": 3, "n2": n, "pool": pool}


def check_background(case, rec):
    rec.note(case, True, [case["column"]])
    back, bins = call("background", pyrepseq.load_pcDelta_background)
    if list(bins) != list(range(len(back) + 1)):
        raise Violation("background-bins", f"bins {list(bins)[:5]}.. are not arange({len(back)}+1)")
    if list(back.index) != list(range(len(back))):
        raise Violation("background-index", "background index is not 0..rows-1")
    seqs = case["seqs"]
    out = call("pcDelta", pyrepseq.pcDelta, list(seqs), bins=bins)
    if len(out) != len(back):
        raise Violation("background-align", f"pcDelta output has {len(out)} rows, background {len(back)}")
    dists = [O.lev(seqs[i], seqs[j]) for i in range(len(seqs)) for j in range(i + 1, len(seqs))]
    want = expected(dists, list(range(len(back) + 1)), True, 0)
    all_close("background-hist", list(out), want, "pcDelta with background bins")
    # (the property says nothing about the background columns' values - e.g. the 'both' column sums to 0.98
    #  because the table is truncated at Delta=23 - so only layout and alignment are asserted)
    if len(back[case["column"]]) != len(out):
        raise Violation("background-align", "column length differs from pcDelta output")


# ---------------------------------------------------------------------------
# strategies
# ---------------------------------------------------------------------------

@st.composite
def edges_strategy(draw, maxd=12):
    start = draw(st.sampled_from([0, 0, 0, 1, 2]))
    n = draw(st.integers(1, 10))
    steps = draw(st.lists(st.sampled_from([1, 1, 1, 2, 3]), min_size=n, max_size=n))
    e = [start]
    for s in steps:
        e.append(e[-1] + s)
    if draw(st.integers(0, 4)) == 0:
        e = [x + 0.5 for x in e]
    return e


@st.composite
def strings_case(draw, tier="quick"):
    alpha = draw(st.sampled_from(["A", "AC", "ACD", G.AA]))
    seqs = draw(G.clonal_family(alpha=alpha, max_size=40, min_size=2, founder_len=(1, 9), max_edits=3))
    case = {"seqs": seqs, "bins": draw(edges_strategy()), "normalize": draw(st.booleans()),
            "pseudocount": draw(st.sampled_from([0, 0, 0.5, 1, 2.25])),
            "metric": draw(st.sampled_from([None, None, "lev", "lenham", ["wlev", 1, 2, 3], ["wlev", 3, 1, 2], ["wlev", 2, 2, 5]])),
            "container": draw(st.sampled_from(["list", "ndarray", "series_str", "series_perm"])),
            "bins_as": draw(st.sampled_from(["list", "array"])), "default_bins": draw(st.booleans())}
    if draw(st.booleans()):
        case["seqs2"] = draw(G.clonal_family(alpha=alpha, max_size=25, min_size=1, founder_len=(1, 9), max_edits=3))
        if draw(st.integers(0, 3)) == 0:
            case["seqs2"] = list(case["seqs"])
            case["same_object"] = draw(st.booleans())
    if draw(st.integers(0, 5)) == 0 and case["metric"] in (None, "lev"):
        # nucleotide-length reads mixed with short ones: distances of 256 and more must not wrap around
        L = draw(st.integers(256, 330))
        case["seqs"] = case["seqs"][:6] + [alpha[0] * L, alpha[-1] * (L - draw(st.integers(0, 3)))]
        top = 2 * L
        case["bins"] = sorted(set([0, 1, 2, 5, 25, 255, 256, 257, L - 4, L, L + 1, top]))
    if case["metric"] == "lenham":
        case["container"] = "list"
    return case


@st.composite
def maxseqs_case(draw, tier="quick"):
    alpha = draw(st.sampled_from(["A", "AC", "ACD"]))
    n = draw(st.integers(2, 8))
    seqs = draw(G.clonal_family(alpha=alpha, max_size=n, min_size=2, founder_len=(1, 5), max_edits=2))
    case = {"seqs": seqs, "maxseqs": draw(st.integers(0, len(seqs) + 2)), "np_seed": draw(st.integers(0, 2 ** 31 - 1)),
            "bins": [0, 1, 2, 3, 5, 9], "container": draw(st.sampled_from(["list", "ndarray", "series_str"]))}
    if draw(st.integers(0, 2)) == 0:
        case["seqs2"] = draw(G.clonal_family(alpha=alpha, max_size=5, min_size=1, founder_len=(1, 5), max_edits=2))
    return case


@st.composite
def tcr_case(draw, tier="quick"):
    n = draw(st.integers(2, 20))
    fa = draw(G.clonal_family(alpha="ACDEF", max_size=n, min_size=n, founder_len=(3, 8), allow_empty=False))
    fb = draw(G.clonal_family(alpha="CASQY", max_size=n, min_size=n, founder_len=(3, 8), allow_empty=False))
    case = {"rows": [[fa[i], fb[i]] for i in range(n)], "cols": draw(st.sampled_from(["A", "B", "AB", "AB"])),
            "bins": draw(edges_strategy()), "normalize": draw(st.booleans()), "pseudocount": draw(st.sampled_from([0, 0.5])),
            "index": draw(st.sampled_from(["default", "str", "rev", "dup"])), "with_v": draw(st.booleans()),
            "extra_cdr3_like": draw(st.booleans()), "reverse_columns": draw(st.booleans())}
    if draw(st.booleans()):
        case["explicit_metric"] = "explicit"
    if draw(st.integers(0, 2)) == 0:
        m = draw(st.integers(1, 10))
        case["rows2"] = [[draw(st.sampled_from(fa)), draw(st.sampled_from(fb))] for _ in range(m)]
    elif draw(st.booleans()):
        case["maxseqs"] = draw(st.integers(0, n + 2))
        case["np_seed"] = draw(st.integers(0, 10 ** 6))
    return case


@st.composite
def background_case(draw, tier="quick"):
    seqs = draw(G.clonal_family(alpha=G.AA, max_size=20, min_size=2, founder_len=(4, 30), max_edits=3, cdr3_like=True))
    return {"seqs": seqs, "column": draw(st.sampled_from(["alpha", "beta", "both"]))}


SUBS = [
    Sub("strings", check_strings, strategy=lambda t: strings_case(t), budget=(2500, 25000)),
    Sub("maxseqs", check_maxseqs, strategy=lambda t: maxseqs_case(t), budget=(800, 8000)),
    Sub("tcr_tables", check_tcr, strategy=lambda t: tcr_case(t), budget=(800, 8000)),
    Sub("maxseqs_large", check_maxseqs_large, strategy=lambda t: maxseqs_large_case(t), budget=(60, 600)),
    Sub("block_boundary_sizes", check_sizes, enum=enum_sizes),
    Sub("background", check_background, strategy=lambda t: background_case(t), budget=(100, 600)),
]
