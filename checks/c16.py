"""C16 — richness and overlap estimators follow their closed forms."""
import math
from fractions import Fraction

import numpy as np
import pandas as pd
from hypothesis import strategies as st

from vlib import boot
from vlib.common import Sub, Violation, call, close

pyrepseq = boot.import_pyrepseq()

PROPERTY = "C16"
QUICK_SCALE = 4
RULE = ("frequency-of-frequency vectors of length 1..8 with entries 0..10^6 (f2 = 0 and f2 > 0 both common) as lists and int "
        "arrays, m in 1..20; collections as lists, tuples, sets, frozensets, Series (arbitrary index), with duplicates, with "
        "missing values (None, np.nan, fresh float('nan') / np.float64('nan') objects, pd.NA) anywhere for overlap / overlap_coefficient and inside Series only for jaccard_index, "
        "non-empty for the ratio forms. Oracle: closed forms in exact Fractions (chao1, chao2, Chao variance "
        "f2(r^2/2 + r^3 + r^4/4), NaN when f2 is zero or absent, no exception), estimate >= S_obs whenever defined; Python set "
        "algebra after NA removal; symmetry, invariance under duplication and reordering. Tolerance 1e-12 relative. "
        "Non-trivial: f1 > 0 and f2 > 0 with r not in {0, 1, 2} (so wrong powers are visible); for overlaps a non-empty "
        "intersection that is a proper subset of both sets."
        " Symmetry is evaluated on the same two collection objects passed in both orders, and on fresh copies.")
ASSUMPTIONS = ["NaN is the representation of 'undefined'", "elements are strings or integers (homogeneous per call)"]


def contain_counts(c, how):
    if how == "list":
        return list(c)
    if how == "narrow":
        # the narrowest integer dtype that holds every entry (int8 / uint8 / int16 / ... arrays are arrays too)
        top = max(c)
        for dt in (np.int8, np.uint8, np.int16, np.uint16, np.int32, np.uint32, np.int64):
            if top <= np.iinfo(dt).max:
                return np.array(c, dtype=dt)
    return np.array(c, dtype=np.int32 if how == "array32" else np.int64)


def check_chao(case, rec):
    c, m, how = case["counts"], case.get("m", 3), case["as"]
    f1 = c[0]
    f2 = c[1] if len(c) > 1 else None
    sobs = sum(c)
    r = Fraction(f1, f2) if f2 else None
    nt = bool(f2) and f1 > 0 and r not in (0, 1, 2)
    rec.note(case, nt, [how, "f2=0" if f2 == 0 else ("f2 absent" if f2 is None else "f2>0"), f"len={len(c)}"])
    arr = contain_counts(c, how)
    # chao1
    want1 = Fraction(sobs) + (Fraction(f1 * f1, 2 * f2) if f2 else Fraction(f1 * (f1 - 1), 2))
    got1 = call("chao1", pyrepseq.chao1, arr)
    if not close(got1, want1, 1e-12):
        raise Violation("chao1", f"chao1({c}) = {got1!r}, closed form {float(want1)!r}")
    if float(got1) < sobs - 1e-9:
        raise Violation("chao1-below-observed", f"chao1({c}) = {got1!r} < S_obs = {sobs}")
    # chao2
    got2 = call("chao2", pyrepseq.chao2, contain_counts(c, how), m)
    if f2:
        want2 = Fraction(sobs) + Fraction(f1 * f1, 2 * f2)
        if not close(got2, want2, 1e-12):
            raise Violation("chao2", f"chao2({c}, {m}) = {got2!r}, closed form {float(want2)!r}")
        if float(got2) < sobs - 1e-9:
            raise Violation("chao2-below-observed", f"chao2({c}) = {got2!r} < S_obs = {sobs}")
    elif not (isinstance(got2, float) or isinstance(got2, np.floating)) or not math.isnan(got2):
        raise Violation("chao2-undefined", f"chao2({c}, {m}) = {got2!r}, expected NaN (q2 = 0 or absent)")
    # variances
    wantv = None if not f2 else f2 * (r ** 2 / 2 + r ** 3 + r ** 4 / 4)
    for name, fn, args in (("var_chao1", pyrepseq.var_chao1, (contain_counts(c, how),)),
                           ("var_chao2", pyrepseq.var_chao2, (contain_counts(c, how), m))):
        gv = call(name, fn, *args)
        if wantv is None:
            if gv is None or not math.isnan(float(gv)):
                raise Violation(f"{name}-undefined", f"{name}({c}) = {gv!r}, expected NaN")
        elif not close(gv, wantv, 1e-12):
            raise Violation(name, f"{name}({c}) = {gv!r}, closed form f2(r^2/2+r^3+r^4/4) = {float(wantv)!r}")


def is_na(x):
    return x is None or (isinstance(x, float) and math.isnan(x))


def na_value(kind):
    # every call returns a FRESH object where the representation allows it (NaN is not equal to itself, and two NaN
    # objects are only "the same missing value" to code that tests for missingness, not identity)
    if kind == "none":
        return None
    if kind == "np.nan":
        return np.nan
    if kind == "float_nan":
        return float("nan")
    if kind == "np.float64_nan":
        return np.float64("nan")
    if kind == "pd.NA":
        return pd.NA
    raise ValueError(kind)


def materialise(elems, how, na="none"):
    vals = [na_value(na) if e == "<NA>" else e for e in elems]
    if how == "list":
        return list(vals)
    if how == "tuple":
        return tuple(vals)
    if how == "set":
        return set(vals)
    if how == "frozenset":
        return frozenset(vals)
    if how == "series":
        return pd.Series(vals, index=[f"k{i}" for i in range(len(vals))], dtype=object)
    if how == "series_nan":
        return pd.Series([np.nan if (v is None) else v for v in vals], index=list(range(len(vals)))[::-1], dtype=object)
    if how == "ndarray":
        return np.array(vals, dtype=object)
    if how == "series_categorical":
        # a column of a filtered sub-table: categorical dtype whose category list also holds values that no longer occur
        def isna(v):
            return v is None or v is pd.NA or (isinstance(v, (float, np.floating)) and v != v)
        present = list(dict.fromkeys(v for v in vals if not isna(v)))
        unused = ["zz-unused", "CASSL-unused"] if all(isinstance(v, str) for v in present) else [-99, 424242]
        dt = pd.CategoricalDtype(categories=present + unused)
        return pd.Series([None if isna(v) else v for v in vals], index=[f"c{i}" for i in range(len(vals))], dtype=dt)
    raise ValueError(how)


def check_overlap(case, rec):
    A, B = case["A"], case["B"]
    ha, hb = case["as_a"], case["as_b"]
    fn = case["fn"]
    keep_na = case.get("na_is_element", False)      # jaccard_index drops missing values inside Series only
    sa = {e for e in A if e != "<NA>" or (keep_na and ha not in ("series", "series_nan", "series_categorical"))}
    sb = {e for e in B if e != "<NA>" or (keep_na and hb not in ("series", "series_nan", "series_categorical"))}
    inter = sa & sb
    nt = bool(inter) and inter != sa and inter != sb
    has_na = "<NA>" in A or "<NA>" in B
    na = case.get("na", "none")
    rec.note(case, nt, [fn, ha, hb, f"na={na}" if has_na else "no_na"])
    f = getattr(pyrepseq, fn)
    if fn == "jaccard_index":
        want = Fraction(len(inter), len(sa | sb))
    elif fn == "overlap":
        want = Fraction(len(inter))
    else:
        want = Fraction(len(inter), min(len(sa), len(sb)))
    # symmetry relates two calls on the caller's SAME two collections: the objects are built once and passed in both orders
    oa, ob = materialise(A, ha, na), materialise(B, hb, na)
    got = call(fn, f, oa, ob)
    if not close(got, want, 1e-12):
        raise Violation(fn, f"{fn}({ha} {A}, {hb} {B}) = {got!r}, expected {want}")
    got_s = call(fn, f, ob, oa)
    if not close(got_s, want, 1e-12):
        raise Violation(f"{fn}-symmetry", f"{fn}(B, A) = {got_s!r} on the same two {hb}/{ha} objects, {fn}(A, B) = {got!r}, expected {want}")
    got_f = call(fn, f, materialise(B, hb, na), materialise(A, ha, na))
    if not close(got_f, want, 1e-12):
        raise Violation(f"{fn}-symmetry", f"{fn}(B, A) = {got_f!r}, expected {want}")
    if ha in ("list", "tuple", "series", "series_nan", "ndarray"):
        dup = list(A) + list(A)[::-1]
        got_d = call(fn, f, materialise(dup, ha, na), materialise(B, hb, na))
        if not close(got_d, want, 1e-12):
            raise Violation(f"{fn}-duplicates", f"duplicated/reordered A gives {got_d!r}, expected {want}")


@st.composite
def chao_case(draw, tier="quick"):
    n = draw(st.integers(1, 8))
    big = draw(st.booleans())
    hi = 10 ** 6 if big else 12
    c = draw(st.lists(st.integers(0, hi), min_size=n, max_size=n))
    if n > 1 and draw(st.integers(0, 3)) == 0:
        c[1] = 0
    if draw(st.integers(0, 5)) == 0:
        c[0] = 0
    if draw(st.integers(0, 4)) == 0:
        # every entry fits a narrow integer dtype, their sum does not
        c = draw(st.lists(st.integers(40, 120), min_size=3, max_size=8))
    return {"counts": c, "m": draw(st.integers(1, 20)), "as": draw(st.sampled_from(["list", "array", "array32", "narrow"]))}


def enum_chao(tier):
    top = 6 if tier == "quick" else 12
    for f1 in range(0, top + 1):
        for f2 in range(0, top + 1):
            yield {"counts": [f1, f2, 1], "m": 2, "as": "list" if (f1 + f2) % 2 else "array"}
            yield {"counts": [f1 * 9 + 1, f2 * 10, 3], "m": 2, "as": "narrow"}
        yield {"counts": [f1], "m": 1, "as": "list"}


@st.composite
def overlap_case(draw, tier="quick"):
    fn = draw(st.sampled_from(["jaccard_index", "overlap", "overlap_coefficient"]))
    kind = draw(st.sampled_from(["str", "int"]))
    pool = ["CASSL", "CASSF", "CAWY", "x", "y z", "é", ""] if kind == "str" else [1, 2, 3, 5, 8, 13, 0]   # '' and 0 are elements, not missing
    if draw(st.booleans()):
        # a common part and a private part on each side (proper, non-empty intersection), with duplicates, shuffled
        perm = list(draw(st.permutations(pool)))
        nc, na, nb = draw(st.integers(1, 2)), draw(st.integers(1, 2)), draw(st.integers(1, 2))
        common, pa, pb = perm[:nc], perm[nc:nc + na], perm[nc + na:nc + na + nb]
        A = list(draw(st.permutations(common + pa + common[:1])))
        B = list(draw(st.permutations(pb + common + pb[:1])))
    else:
        A = draw(st.lists(st.sampled_from(pool), min_size=1, max_size=8))
        B = draw(st.lists(st.sampled_from(pool), min_size=1, max_size=8))
    conts = ["list", "tuple", "set", "frozenset", "series", "ndarray"]
    ha, hb = draw(st.sampled_from(conts)), draw(st.sampled_from(conts))
    if draw(st.booleans()):
        # missing values: anywhere for overlap / overlap_coefficient, only inside Series for jaccard_index
        if fn == "jaccard_index":
            ha = draw(st.sampled_from(["series", "series_nan"]))
            A = A + ["<NA>"]
            if draw(st.booleans()):
                hb = draw(st.sampled_from(["series", "series_nan"]))
                B = ["<NA>"] + B
        else:
            if kind == "int":
                # ints + missing would be coerced to floats inside a Series; keep containers object-typed
                ha = draw(st.sampled_from(["list", "tuple", "set", "series", "series_nan"]))
            A = A[:1] + ["<NA>"] + A[1:]
            if draw(st.booleans()):
                B = B + ["<NA>"]
    if draw(st.integers(0, 5)) == 0:
        ha = "series_categorical"
        if draw(st.booleans()):
            hb = "series_categorical"
    case = {"fn": fn, "A": A, "B": B, "as_a": ha, "as_b": hb}
    if fn == "jaccard_index" and "<NA>" not in A + B and draw(st.integers(0, 2)) == 0:
        # None inside plain collections is an element like any other for jaccard_index (only Series get their NA dropped)
        case["A"], case["B"] = A + ["<NA>"], B + (["<NA>"] if draw(st.booleans()) else [])
        case["as_a"], case["as_b"] = draw(st.sampled_from(["list", "tuple", "set"])), draw(st.sampled_from(["list", "tuple", "set", "frozenset"]))
        case["na_is_element"] = True
        case["na"] = "none"
        return case
    if "<NA>" in A or "<NA>" in B:
        case["na"] = draw(st.sampled_from(["none", "np.nan", "float_nan", "np.float64_nan", "pd.NA"]))
        if "<NA>" in A and draw(st.booleans()):
            case["A"] = A + ["<NA>"]      # the same kind of missing value twice in one collection
    return case


SUBS = [
    Sub("chao_grid", check_chao, enum=enum_chao),
    Sub("chao_random", check_chao, strategy=lambda t: chao_case(t), budget=(3000, 30000)),
    Sub("overlap_random", check_overlap, strategy=lambda t: overlap_case(t), budget=(3000, 30000)),
]
