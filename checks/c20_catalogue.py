"""Catalogue of representative public-API calls for the purity property (C20).

Every spec builds *fresh* arguments deterministically, optionally seeds NumPy,
calls the function and returns a canonical JSON form of the result. A spec is
executed (a) alone in a fresh interpreter to obtain its reference value and
(b) inside generated call histories.
"""
import copy
import math
import random

import numpy as np
import pandas as pd

from vlib import boot

pyrepseq = boot.import_pyrepseq()
import matplotlib  # noqa: E402
import matplotlib.pyplot as plt  # noqa: E402
from pyrepseq.metric import Levenshtein, WeightedLevenshtein  # noqa: E402
from pyrepseq.metric import tcr_metric as TM  # noqa: E402

PL = pyrepseq.plotting
nn = pyrepseq.nn


# ---------------------------------------------------------------------------
# canonical forms
# ---------------------------------------------------------------------------
def cf(x):
    """canonical float"""
    x = float(x)
    if math.isnan(x):
        return "nan"
    if math.isinf(x):
        return "inf" if x > 0 else "-inf"
    return repr(x)


def canon_value(v, sort_lists=False):
    import scipy.sparse
    if v is None or isinstance(v, (bool, str)):
        return v
    if isinstance(v, (np.bool_,)):
        return bool(v)
    if isinstance(v, (int, np.integer)):
        return int(v)
    if isinstance(v, (float, np.floating)):
        return cf(v)
    if isinstance(v, complex):
        return repr(v)
    if scipy.sparse.issparse(v):
        return {"sparse": canon_value(v.toarray())}
    if isinstance(v, np.ndarray):
        if v.dtype == object:
            return {"nd_object": [canon_value(x) for x in v.tolist()], "shape": list(v.shape)}
        flat = v.tolist()
        return {"nd": canon_value(flat), "dtype": str(v.dtype), "shape": list(v.shape)}
    if isinstance(v, pd.DataFrame):
        return {"frame": {"columns": [repr(c) for c in v.columns], "index": [repr(i) for i in v.index],
                          "dtypes": [str(t) for t in v.dtypes], "values": [[canon_value(x) for x in row] for row in v.to_numpy(dtype=object).tolist()]}}
    if isinstance(v, pd.Series):
        return {"series": {"name": repr(v.name), "index": [repr(i) for i in v.index], "dtype": str(v.dtype),
                           "values": [canon_value(x) for x in v.to_numpy(dtype=object).tolist()]}}
    if isinstance(v, (set, frozenset)):
        return {"set": sorted((canon_value(x) for x in v), key=repr)}
    if isinstance(v, dict):
        return {"dict": sorted(([repr(k), canon_value(x)] for k, x in v.items()), key=lambda kv: kv[0])}
    if isinstance(v, (list, tuple)):
        out = [canon_value(x) for x in v]
        if sort_lists:
            out = sorted(out, key=repr)
        return out
    if isinstance(v, matplotlib.colors.Normalize):
        return {"norm": type(v).__name__, "vmin": canon_value(v.vmin), "vmax": canon_value(v.vmax)}
    if callable(v):
        return {"callable": getattr(v, "__qualname__", repr(type(v)))}
    return {"repr": repr(v)}


def triplets(res):
    return sorted([[int(a), int(b), cf(c)] for a, b, c in res])


# ---------------------------------------------------------------------------
# fixtures (fresh objects on every call)
# ---------------------------------------------------------------------------
def SEQS():
    return ["CASSLGQ", "CASSLGQF", "CASSLAQ", "CSSLGQ", "WWYY", "WWYA", "CASSLGQ", "CASRLGQ", "WYY"]


def SEQS_B():
    # same length as SEQS() but different content: exposes state keyed on sizes instead of contents
    return ["CSARDRTGNGYTF", "CSARDRTGNGYT", "CSARDKTGNGYTF", "WWYY", "AAYY", "WWYYY", "CSARDRTGNGYTF", "CAWSVGQF", "CAWSVGQ"]


def QUERIES():
    return ["CASSLGQ", "WWYYA", "CASSLGG", "AAAA"]


def LABELS():
    return ["x", "y", "x", "z", "x", "y", "w", "x", "y"]


def TCR():
    return pd.DataFrame({
        "TRAV": ["TRAV1-1*01", "TRAV40*01", "TRAV1-2*01", "TRAV1-1*01", "TRAV12-2*01", "TRAV12-2*01"],
        "CDR3A": ["CAVRDSNYQLIW", "CAVRDSNYQLIF", "CAVMDSNYQLIW", "CAVRDSNYQLIW", "CAASGGSYIPTF", "CAASGGSYIPTF"],
        "TRBV": ["TRBV2*01", "TRBV3-1*01", "TRBV2*01", "TRBV7-2*01", "TRBV20-1*01", "TRBV20-1*01"],
        "CDR3B": ["CASSLGQAYEQYF", "CASSLGQAYEQFF", "CASSLGGAYEQYF", "CASSLGQAYEQYF", "CSARDRTGNGYTF", "CSARDRTGNGYTF"],
        "Epitope": ["GILGFVFTL", "GILGFVFTL", "NLVPMVATV", "GILGFVFTL", "NLVPMVATV", "NLVPMVATV"],
        "count": [5, 1, 2, 1, 7, 1],
    }, index=["t0", "t1", "t2", "t3", "t4", "t5"])


def CLDF():
    return pd.DataFrame({"cdr3a": ["CAF", "CAW", "CDDF", "CAF", "CDDW", "CAAF"], "cdr3b": ["CASF", "CASF", "CSSF", "CAWF", "CSSW", "CASSF"],
                         "epitope": ["e1", "e1", "e2", "e1", "e2", "e3"]}, index=[10, 11, 12, 13, 14, 15])


def STATDF():
    return pd.DataFrame({"g": ["b", "a", "a", "b", "c", "a", "b"], "h": [1, 1, 2, 1, 1, 1, 2],
                         "s": ["AA", "AC", "AA", "AA", "CC", "AC", "AA"], "t": ["x", "y", "x", "x", "z", "y", "x"]})


def RAWDF():
    return pd.DataFrame({"TRAV": ["av26.1*1", "TCRAV20*01", "unknown"], "CDR3A": ["CIVRAPGRADMRF", "CAVPSGAGSYQLTF", None],
                         "TRBV": ["bv13*1", "TCRBV28S1*01", "TRBV7-2*01"], "CDR3B": ["CASSYLPGQGDHYSNQPQHF", "cassf", "CASSDWGSQNTLYF"],
                         "Epitope": ["flkekggl", "x1", "YMPYFFTLL"], "MHCA": ["b8", "HLA-DQA1*05", np.nan], "clone": [1, 2, 3]},
                        index=["a", "b", "c"])


def cd_double(a, b):
    from rapidfuzz.distance.Levenshtein import distance
    return 2 * distance(str(a), str(b))


# ---------------------------------------------------------------------------
# figure read-back
# ---------------------------------------------------------------------------
def fig_clustermap(res):
    cg, Z, cl = res
    out = {"data2d": canon_value(np.asarray(cg.data2d)), "order": [int(i) for i in cg.dendrogram_row.reordered_ind],
           "linkage": canon_value(np.asarray(Z)), "cluster": canon_value(np.asarray(cl)),
           "xlabel": cg.ax_heatmap.get_xlabel(), "ylabel": cg.ax_heatmap.get_ylabel()}
    if cg.ax_cbar is not None:
        out["cbar_ticks"] = [cf(t) for t in cg.ax_cbar.get_xticks()]
        out["cbar_label"] = cg.ax_cbar.get_xlabel()
    return out


def closing(f):
    def g(*a, **k):
        try:
            return f(*a, **k)
        finally:
            plt.close("all")
    return g


# ---------------------------------------------------------------------------
# the catalogue: name -> builder() -> dict(fn, args, kwargs, post, seed, value)
# ---------------------------------------------------------------------------
CATALOGUE = {}


def spec(name, module, seed=None, value=True, raises=False, heavy=False):
    def deco(builder):
        CATALOGUE[name] = dict(builder=builder, module=module, seed=seed, value=value, raises=raises, heavy=heavy)
        return builder
    return deco


def S(fn, *args, post=None, **kwargs):
    return dict(fn=fn, args=list(args), kwargs=kwargs, post=post or canon_value)


# --- search -----------------------------------------------------------------
@spec("nn_default", "nn")
def _():
    return S(pyrepseq.nearest_neighbor, SEQS(), post=triplets)


@spec("nn_k2_series", "nn")
def _():
    return S(pyrepseq.nearest_neighbor, pd.Series(SEQS(), index=list("abcdefghi")), max_edits=2, post=triplets)


@spec("nn_default_other_content", "nn")
def _():
    return S(pyrepseq.nearest_neighbor, SEQS_B(), post=triplets)


@spec("symdel_k2_other_content_ndarray", "nn")
def _():
    return S(pyrepseq.symdel, np.array(SEQS_B()), max_edits=2, post=triplets)


@spec("hash_based_k2_ndarray", "nn")
def _():
    return S(pyrepseq.hash_based, np.array(["WWYY", "CAAF", "WWYA", "AAYY", "CADF", "CAF"]), max_edits=2, post=triplets)


@spec("kdtree_ndarray_other_content", "nn")
def _():
    return S(pyrepseq.kdtree, np.array(SEQS_B()), max_edits=2, post=triplets)


@spec("kdtree_series_ncpu2_hamming", "nn")
def _():
    return S(pyrepseq.kdtree, pd.Series(SEQS_B(), index=list("rstuvwxyz")), max_edits=1, n_cpu=2, custom_distance="hamming", post=triplets)


@spec("nn_hamming", "nn")
def _():
    return S(pyrepseq.nearest_neighbor, SEQS(), max_edits=1, custom_distance="hamming", post=triplets)


@spec("nn_seqs2_coo", "nn")
def _():
    return S(pyrepseq.nearest_neighbor, SEQS(), max_edits=1, seqs2=QUERIES(), output_type="coo_matrix")


@spec("symdel_custom", "nn")
def _():
    return S(pyrepseq.symdel, np.array(SEQS()), max_edits=2, custom_distance=cd_double, max_custom_distance=2.0, post=triplets)


@spec("symdel_ndarray_out", "nn")
def _():
    return S(pyrepseq.symdel, SEQS(), max_edits=1, output_type="ndarray")


@spec("hash_based", "nn")
def _():
    return S(pyrepseq.hash_based, SEQS(), max_edits=1, post=triplets)


@spec("hash_based_hamming", "nn")
def _():
    return S(pyrepseq.hash_based, tuple(SEQS()), max_edits=2, custom_distance="hamming", post=triplets)


@spec("kdtree", "nn")
def _():
    return S(pyrepseq.kdtree, SEQS(), max_edits=2, post=triplets)


@spec("kdtree_ncpu2", "nn")
def _():
    return S(pyrepseq.kdtree, SEQS(), max_edits=1, n_cpu=2, post=triplets)


@spec("kdtree_hamming_ncpu3", "nn")
def _():
    return S(pyrepseq.kdtree, SEQS(), max_edits=1, n_cpu=3, custom_distance="hamming", post=triplets)


@spec("kdtree_custom", "nn")
def _():
    return S(pyrepseq.kdtree, SEQS(), max_edits=2, custom_distance=cd_double, max_custom_distance=2, compression=3, post=triplets)


@spec("kdtree_max_returns", "nn")
def _():
    return S(pyrepseq.kdtree, ["CAAA", "CAAD", "CAAE", "CDDD"], max_edits=1, max_returns=1,
             post=lambda r: sorted([[int(a), cf(c)] for a, b, c in r]))


@spec("symdeldb_lookup", "nn")
def _():
    db = nn.SymdelDB(SEQS(), 1)
    return S(db.lookup, QUERIES(), post=triplets)


@spec("lookupdb_lookup", "nn")
def _():
    db = nn.LookupDB(SEQS())
    return S(db.lookup, QUERIES(), max_edits=1, post=triplets)


@spec("tcrdist_both", "nn")
def _():
    return S(pyrepseq.nearest_neighbor_tcrdist, TCR(), chain="both", max_edits=2, max_tcrdist=60, tcrdist_kwargs={},
             post=lambda r: sorted([[int(a), int(b), int(c)] for a, b, c in np.asarray(r).tolist()]))


@spec("tcrdist_kwargs", "nn")
def _():
    return S(pyrepseq.nearest_neighbor_tcrdist, TCR(), chain="beta", max_edits=2, max_tcrdist=100, tcrdist_kwargs=dict(ntrim=2, ctrim=1),
             post=lambda r: sorted([[int(a), int(b), int(c)] for a, b, c in np.asarray(r).tolist()]))


@spec("tcrdist_default_kwargs", "nn")
def _():
    return S(pyrepseq.nearest_neighbor_tcrdist, TCR(), chain="alpha", max_edits=1,
             post=lambda r: sorted([[int(a), int(b), int(c)] for a, b, c in np.asarray(r).tolist()]))


@spec("nn_empty_raises", "nn", raises=True)
def _():
    return S(pyrepseq.nearest_neighbor, [])


@spec("nn_bad_k_raises", "nn", raises=True)
def _():
    return S(pyrepseq.symdel, SEQS(), max_edits=0)


@spec("kdtree_bad_ncpu_raises", "nn", raises=True)
def _():
    return S(pyrepseq.kdtree, SEQS(), n_cpu=0)


@spec("kdtree_nonaa_raises", "nn", raises=True)
def _():
    return S(pyrepseq.kdtree, ["CASSB1", "CASS"], max_edits=1)


@spec("hash_bad_output_raises", "nn", raises=True)
def _():
    return S(pyrepseq.hash_based, SEQS(), output_type="dense")


# --- stats ------------------------------------------------------------------
@spec("pc_list", "stats")
def _():
    return S(pyrepseq.pc, LABELS())


@spec("pc_two", "stats")
def _():
    return S(pyrepseq.pc, np.array(LABELS()), pd.Series(["x", "q", "y"]))


@spec("pc_frame", "stats")
def _():
    return S(pyrepseq.pc, STATDF()[["s", "t"]])


@spec("pc_n", "stats")
def _():
    return S(pyrepseq.pc_n, [3, 1, 2, 5])


@spec("count_arrays", "stats")
def _():
    # integer and float64 count arrays handed to every count-based function (in-place arithmetic would show)
    return S(lambda a, b, c: [pyrepseq.pc_n(a), pyrepseq.pc_n(b), pyrepseq.varpc_n(b), pyrepseq.stdpc_n(b), pyrepseq.pc_n(b),
                              pyrepseq.chao1(c), pyrepseq.var_chao1(c), pyrepseq.chao2(c, 2), pyrepseq.var_chao2(c, 2)],
             np.array([3, 1, 2, 5]), np.array([3.0, 1.0, 2.0, 5.0]), np.array([5, 2, 1]))


@spec("pc_conditional_weight_array", "stats")
def _():
    return S(lambda d, w: [pyrepseq.pc_conditional(d, "g", "s", group_weights=w), pyrepseq.renyi2_entropy(d, "s", by="g", group_weights=w)],
             STATDF(), np.array([1.0, 2.0]))


@spec("subsample_array_seeded", "stats", seed=14)
def _():
    return S(pyrepseq.subsample, np.array([3, 0, 2, 5, 1]), 4)


@spec("pc_joint", "stats")
def _():
    return S(pyrepseq.pc_joint, STATDF(), ["s", "t"])


@spec("pc_conditional", "stats")
def _():
    return S(pyrepseq.pc_conditional, STATDF(), ["g"], "s", group_weights=[1.0, 2.0])


@spec("pc_grouped_cross", "stats")
def _():
    return S(pyrepseq.pc_grouped_cross, STATDF(), "g", ["s", "t"])


@spec("varpc_stdpc", "stats")
def _():
    return S(lambda n, a: [pyrepseq.varpc_n(n), pyrepseq.stdpc_n(n), pyrepseq.stdpc(a)], np.array([3, 1, 2, 5]), LABELS())


@spec("chao", "stats")
def _():
    return S(lambda c: [pyrepseq.chao1(c), pyrepseq.var_chao1(c), pyrepseq.chao2(c, 3), pyrepseq.var_chao2(c, 3)], [5, 2, 1])


@spec("overlaps", "stats")
def _():
    return S(lambda a, b: [pyrepseq.jaccard_index(a, b), pyrepseq.overlap(a, b), pyrepseq.overlap_coefficient(a, b)],
             ["a", "b", "c", "a"], pd.Series(["b", "c", "d", None]))


@spec("subsample_seeded", "stats", seed=11)
def _():
    return S(pyrepseq.subsample, [3, 0, 2, 5, 1], 6)


@spec("subsample_raises", "stats", seed=12, raises=True)
def _():
    return S(pyrepseq.subsample, [1, 2], 7)


@spec("powerlaw_sample_seeded", "stats", seed=13)
def _():
    return S(pyrepseq.powerlaw_sample, size=20, xmin=2, alpha=2.5)


@spec("mle_all", "stats")
def _():
    c = [1, 1, 2, 3, 1, 7, 2, 1, 12, 4]
    return S(lambda c: [pyrepseq.powerlaw_mle_alpha(c, method="simple"), pyrepseq.powerlaw_mle_alpha(c, cmin=2, method="continuitycorrection"),
                        round(float(pyrepseq.powerlaw_mle_alpha(c, method="exact")), 6)], c)


@spec("mle_exact_fit_fails_raises", "stats", raises=True)
def _():
    # the optimiser is stopped after two iterations: "fitting failed"
    return S(pyrepseq.powerlaw_mle_alpha, [1, 2, 3, 4, 5, 1, 1, 2, 9, 30], cmin=1, method="exact", options=dict(maxiter=2))


@spec("undefined_estimates_are_nan", "stats")
def _():
    # calls whose documented answer is "undefined": NaN (with a NumPy warning), never an exception
    return S(lambda a, c: [pyrepseq.pc(a), pyrepseq.pcDelta(a, bins=[0, 1, 2]), pyrepseq.pc_n(c), pyrepseq.chao2([3, 0, 1], 4)], ["CASSF"], np.array([1]))


@spec("mle_bad_method_raises", "stats", raises=True)
def _():
    return S(pyrepseq.powerlaw_mle_alpha, [1, 2, 3], method="nope")


# --- distance -----------------------------------------------------------------
@spec("pdist_cdist", "distance")
def _():
    return S(lambda a, b: [pyrepseq.pdist(a), pyrepseq.cdist(a, b, dtype=np.int64)], SEQS(), QUERIES())


@spec("pcDelta", "distance")
def _():
    return S(pyrepseq.pcDelta, SEQS(), bins=np.arange(0, 8), pseudocount=0.5)


@spec("pcDelta_default_bins", "distance")
def _():
    return S(pyrepseq.pcDelta, SEQS(), QUERIES())


@spec("pcDelta_frame", "distance")
def _():
    return S(pyrepseq.pcDelta, TCR(), bins=[0, 1, 2, 4, 30], normalize=False)


@spec("pcDelta_maxseqs_seeded", "distance", seed=21)
def _():
    return S(pyrepseq.pcDelta, SEQS(), bins=[0, 1, 2, 3, 10], normalize=False, maxseqs=5)


@spec("pcDelta_frame_maxseqs_not_binding", "distance")
def _():
    # maxseqs >= N: nothing is sampled, the caller's labelled table / Series is what the code works on
    ser = pd.Series(SEQS(), index=[f"s{i}" for i in range(len(SEQS()))][::-1], name="cdr3")
    return S(lambda a, b: [pyrepseq.pcDelta(a, bins=[0, 1, 2, 4, 30], normalize=False, maxseqs=len(a)),
                           pyrepseq.pcDelta(b, a["CDR3B"], bins=[0, 1, 2, 4, 30], normalize=False, maxseqs=50)], TCR(), ser)


@spec("pcDelta_bins0", "distance")
def _():
    return S(pyrepseq.pcDelta, SEQS(), bins=0)


@spec("pcDelta_grouped", "distance")
def _():
    return S(pyrepseq.pcDelta_grouped, STATDF(), "g", "s", bins=[0, 1, 2, 3])


@spec("pcDelta_grouped_cross", "distance")
def _():
    return S(pyrepseq.pcDelta_grouped_cross, STATDF(), "g", "s", condensed=True, bins=[0, 1, 2, 3])


@spec("pcDelta_grouped_cross_square", "distance")
def _():
    return S(pyrepseq.pcDelta_grouped_cross, STATDF(), "g", "s", bins=0)


@spec("background", "distance")
def _():
    return S(pyrepseq.load_pcDelta_background, post=lambda r: [canon_value(r[0].to_numpy()), canon_value(r[1])])


@spec("downsample_seeded", "distance", seed=22)
def _():
    return S(pyrepseq.downsample, SEQS(), 4, post=lambda r: sorted(str(x) for x in r))


@spec("downsample_frame_seeded", "distance", seed=23)
def _():
    return S(pyrepseq.downsample, TCR(), 3, post=lambda r: sorted(str(x) for x in r.index))


@spec("neighbors_generators", "distance")
def _():
    return S(lambda x: [sorted(pyrepseq.levenshtein_neighbors(x, "ACD")), sorted(pyrepseq.hamming_neighbors(x, "ACD", variable_positions=[0, 2])),
                        sorted(pyrepseq.next_nearest_neighbors(x, lambda s: pyrepseq.hamming_neighbors(s, "AC"), maxdistance=2))], "CAAD")


@spec("pair_utils", "distance")
def _():
    seqs = ["CAAA", "CAAD", "CDDD", "CDAD", "CAA"]
    return S(lambda s: [sorted(sorted(p) for p in pyrepseq.find_neighbor_pairs(s)), sorted(pyrepseq.find_neighbor_pairs_index(s)),
                        pyrepseq.calculate_neighbor_numbers(s), pyrepseq.isdist1("CAAE", set(s)), pyrepseq.nndist_hamming("CDDE", set(s), maxdist=3)], seqs)


@spec("pair_utils_set_args", "distance")
def _():
    seqs = {"CAAA", "CAAD", "CDDD", "CDAD", "CAAE", "WAAA"}
    ref = {"CAAA", "CAAD", "CDDD"}
    return S(lambda s, r: [sorted(sorted(p) for p in pyrepseq.find_neighbor_pairs(s)),
                           sorted(sorted(p) for p in pyrepseq.find_neighbor_pairs(s, neighborhood=pyrepseq.levenshtein_neighbors)),
                           sorted(pyrepseq.calculate_neighbor_numbers(sorted(s), reference=r).tolist()),
                           pyrepseq.isdist1("CAAE", r), pyrepseq.nndist_hamming("CDDE", r, maxdist=3),
                           sorted(pyrepseq.next_nearest_neighbors("CA", lambda x: pyrepseq.hamming_neighbors(x, "ACD")))], seqs, ref)


@spec("overlaps_sets", "stats")
def _():
    return S(lambda a, b: [pyrepseq.jaccard_index(a, b), pyrepseq.overlap(a, b), pyrepseq.overlap_coefficient(a, b)],
             {"a", "b", "c"}, frozenset(["b", "c", "d"]))


@spec("nndist_maxdist_raises", "distance", raises=True)
def _():
    return S(pyrepseq.nndist_hamming, "CAAA", {"CAAD"}, maxdist=5)


@spec("hierarchical_default", "distance")
def _():
    return S(pyrepseq.hierarchical_clustering, SEQS())


@spec("hierarchical_default_table", "distance")
def _():
    return S(pyrepseq.hierarchical_clustering, TCR())


@spec("hierarchical_two_sequences_default", "distance")
def _():
    return S(pyrepseq.hierarchical_clustering, ["CASSLGQ", "CASSLAQ"])


@spec("hierarchical_large_default", "distance", heavy=True)
def _():
    # more than a thousand sequences in one call
    seqs = ["CAS" + "ACDEFGHIKL"[i % 10] + "ACDEFGHIKL"[(i // 10) % 10] + "ACDEFGHIKL"[(i // 100) % 10] + "QF" * (1 + i // 1000) for i in range(1003)]
    return S(pyrepseq.hierarchical_clustering, seqs, post=lambda r: [canon_value(np.asarray(r[0])[:5]), int(np.asarray(r[1]).max())])


@spec("hierarchical_kws", "distance")
def _():
    return S(pyrepseq.hierarchical_clustering, TCR(), linkage_kws=dict(method="single"), cluster_kws=dict(t=3, criterion="maxclust"))


@spec("hierarchical_kws_strings", "distance")
def _():
    return S(pyrepseq.hierarchical_clustering, SEQS_B(), metric=WeightedLevenshtein(1, 1, 2), linkage_kws=dict(method="complete", optimal_ordering=False),
             cluster_kws=dict(t=4.5, criterion="distance"))


# --- metric -------------------------------------------------------------------
@spec("lev_metric", "metric")
def _():
    return S(lambda a, b: [Levenshtein().calc_cdist_matrix(a, b), WeightedLevenshtein(1, 2, 3).calc_pdist_vector(a)], SEQS(), QUERIES())


@spec("tcr_metric_cdr", "metric")
def _():
    return S(lambda a, b: TM.CdrLevenshtein(alpha_weight=2, cdr1_weight=3).calc_cdist_matrix(a, b), TCR(), TCR().iloc[[4, 0]])


@spec("tcr_metric_pdist", "metric")
def _():
    return S(lambda a: [TM.BetaCdrLevenshtein().calc_pdist_vector(a), TM.Cdr3Levenshtein(beta_weight=4).calc_pdist_vector(a)], TCR())


@spec("tcr_metric_objects_coexist", "metric")
def _():
    def f(a):
        m1 = TM.Cdr3Levenshtein()
        m2 = TM.Cdr3Levenshtein(alpha_weight=3, substitution_weight=2)
        m3 = TM.CdrLevenshtein(cdr1_weight=5)
        return [m1.calc_pdist_vector(a), m3.calc_pdist_vector(a), m2.calc_pdist_vector(a), m1.calc_pdist_vector(a)]
    return S(f, TCR())


@spec("string_metric_objects_coexist", "metric")
def _():
    def f(a):
        m1, m2 = WeightedLevenshtein(), WeightedLevenshtein(1, 2, 3)
        return [m1.calc_pdist_vector(a), m2.calc_pdist_vector(a), Levenshtein().calc_pdist_vector(np.array(a))]
    return S(f, SEQS())


@spec("tcr_metric_bad_input_raises", "metric", raises=True)
def _():
    return S(TM.AlphaCdr3Levenshtein().calc_cdist_matrix, ["CAVF"], TCR())


def TCR_BADV(symbol="TRAV1-1"):
    t = TCR()
    t.loc["t1", "TRAV"] = symbol        # a gene-level symbol: tidytcells has no sequence data for it, the CDR metrics raise
    return t


@spec("tcr_metric_cdr_unknown_v_raises", "metric", raises=True)
def _():
    return S(lambda a: TM.CdrLevenshtein().calc_pdist_vector(a), TCR_BADV())


@spec("tcr_metric_alpha_cdr_unknown_v_raises", "metric", raises=True)
def _():
    return S(lambda a, b: TM.AlphaCdrLevenshtein(cdr1_weight=2).calc_cdist_matrix(a, b), TCR_BADV("junk"), TCR())


@spec("tcr_metric_cdr_unknown_v_twice", "metric")
def _():
    def f(a, b):
        out = []
        for t in (a, b, a, a):          # the failing table again after it failed, with a good one in between
            try:
                out.append(TM.CdrLevenshtein(cdr2_weight=2).calc_pdist_vector(t))
            except Exception as e:  # noqa: BLE001
                out.append("raises " + type(e).__name__)
        return out
    return S(f, TCR_BADV(), TCR())


# --- long-lived objects ---------------------------------------------------------
# Created once when the catalogue is imported (i.e. first thing in a fresh interpreter) and used again and again between
# other calls, as user code does with metric and database objects.
PERSIST = {
    "cdr3": TM.Cdr3Levenshtein(),
    "cdr_weighted": TM.CdrLevenshtein(alpha_weight=2, cdr2_weight=3, insertion_weight=2),
    "wlev": WeightedLevenshtein(1, 2, 3),
    "lev": Levenshtein(),
    "symdeldb": nn.SymdelDB(SEQS(), 2),
    "lookupdb": nn.LookupDB(SEQS()),
}


@spec("persistent_tcr_metrics", "metric")
def _():
    return S(lambda a: [PERSIST["cdr3"].calc_pdist_vector(a), PERSIST["cdr_weighted"].calc_cdist_matrix(a, a.iloc[[1, 3]])], TCR())


@spec("persistent_string_metrics", "metric")
def _():
    return S(lambda a, b: [PERSIST["wlev"].calc_cdist_matrix(a, b), PERSIST["lev"].calc_pdist_vector(a)], SEQS(), QUERIES())


@spec("persistent_pcDelta_metric", "distance")
def _():
    return S(lambda a: pyrepseq.pcDelta(a, metric=PERSIST["cdr3"], bins=[0, 1, 2, 4, 30], normalize=False), TCR())


@spec("persistent_symdeldb", "nn")
def _():
    return S(lambda q: PERSIST["symdeldb"].lookup(q), QUERIES(), post=triplets)


@spec("persistent_symdeldb_hamming", "nn")
def _():
    return S(lambda q: PERSIST["symdeldb"].lookup(q, custom_distance="hamming"), QUERIES() + ["CASSLGQ"], post=triplets)


def _len_gap(a, b):
    return abs(len(a) - len(b)) + (0 if a[:1] == b[:1] else 0.5)


@spec("persistent_symdeldb_custom_wide", "nn")
def _():
    return S(lambda q: PERSIST["symdeldb"].lookup(q, custom_distance=_len_gap), QUERIES() + ["CASSLGQ"], post=triplets)


@spec("persistent_symdeldb_custom_zero", "nn")
def _():
    return S(lambda q: PERSIST["symdeldb"].lookup(q, custom_distance=_len_gap, max_custom_distance=0), QUERIES() + ["CSSLGQ"], post=triplets)


@spec("persistent_lookupdb_custom", "nn")
def _():
    return S(lambda q: PERSIST["lookupdb"].lookup(q, max_edits=2, custom_distance=_len_gap, max_custom_distance=0.5), ["WWYY", "CASSLG"], post=triplets)


@spec("persistent_lookupdb_k2", "nn")
def _():
    return S(lambda q: PERSIST["lookupdb"].lookup(q, max_edits=2), ["WWYY", "CASSLG"], post=triplets)


@spec("persistent_lookupdb_k1", "nn")
def _():
    return S(lambda q: PERSIST["lookupdb"].lookup(q, max_edits=1), ["WWYY", "CASSLG"], post=triplets)


# --- clustering ---------------------------------------------------------------
@spec("graph_cc", "clustering")
def _():
    nb = pyrepseq.nearest_neighbor(SEQS(), max_edits=1)
    return S(pyrepseq.graph_clustering, sorted(nb), SEQS())


@spec("graph_multilevel", "clustering", value=False)
def _():
    nb = np.array(sorted(pyrepseq.nearest_neighbor(SEQS(), max_edits=1)))
    return S(pyrepseq.graph_clustering, nb, pd.Series(SEQS()), clustering="multilevel")


@spec("graph_empty", "clustering")
def _():
    return S(pyrepseq.graph_clustering, [], ["AAAA", "WWWWWWW"])


# --- io / util / entropy --------------------------------------------------------
@spec("standardize", "io")
def _():
    return S(pyrepseq.standardize_dataframe, RAWDF(), suppress_warnings=True)


@spec("standardize_mapper", "io")
def _():
    df = RAWDF().rename(columns={"TRBV": "v_b", "CDR3B": "junction_b"})
    return S(pyrepseq.standardize_dataframe, df, col_mapper={"v_b": "TRBV", "junction_b": "CDR3B"}, tcr_precision="allele",
             tcr_enforce_functional=False, strict_cdr3_standardization=True, suppress_warnings=True)


@spec("standardize_shared_mapper", "io")
def _():
    # one mapper shared between tables: some of its source columns are absent from this (beta-only) table
    df = RAWDF()[["TRBV", "CDR3B", "clone"]].rename(columns={"TRBV": "v_b", "CDR3B": "junction_b"})
    return S(pyrepseq.standardize_dataframe, df, col_mapper={"v_a": "TRAV", "junction_a": "CDR3A", "v_b": "TRBV", "junction_b": "CDR3B"},
             suppress_warnings=True)


@spec("standardize_missing_df_raises", "io", raises=True)
def _():
    return S(pyrepseq.standardize_dataframe)


@spec("predicates", "io")
def _():
    objs = ["CASSF", "", "cassf", None, float("nan"), 5, ["C", "F"], {}, b"CF", "CASSX"]
    return S(lambda o: [[pyrepseq.isvalidaa(x), pyrepseq.isvalidcdr3(x)] for x in o], objs)


@spec("multimerge_suffixes", "io")
def _():
    a = pd.DataFrame({"key": ["k1", "k2"], "count": [1, 2]})
    b = pd.DataFrame({"key": ["k2", "k3"], "count": [5, 6]})
    return S(pyrepseq.multimerge, [a, b], "key", suffixes=["a", "b"], post=lambda r: canon_value(r.sort_index()))


@spec("multimerge_inner", "io")
def _():
    a = pd.DataFrame({"key": ["k1", "k2"], "ca": [1, 2]})
    b = pd.DataFrame({"key": ["k2", "k3"], "cb": [5, 6]})
    return S(pyrepseq.multimerge, [a, b], "key", how="inner", post=lambda r: canon_value(r.sort_values("key").reset_index(drop=True)))


@spec("multimerge_column", "io")
def _():
    a = pd.DataFrame({"key": ["k1", "k2"], "ca": [1, 2]})
    b = pd.DataFrame({"key": ["k2", "k3"], "cb": [5, 6]})
    c = pd.DataFrame({"key": ["k1", "k3"], "cc": ["u", "v"]})
    return S(pyrepseq.multimerge, [a, b, c], "key", how="inner" if False else "outer",
             post=lambda r: canon_value(r.sort_values("key").reset_index(drop=True)))


@spec("regex_consensus", "util")
def _():
    return S(lambda s: [pyrepseq.seqs_to_regex(s, align=False), pyrepseq.seqs_to_consensus(s, align=False)], ["CAF", "CDF", "C-F", "CAW"])


@spec("align_seqs_raises", "util", raises=True)
def _():
    return S(pyrepseq.seqs_to_regex, ["CAF", "CDDF"])  # needs the external aligner, absent here


@spec("renyi", "entropy")
def _():
    return S(lambda d: [pyrepseq.renyi2_entropy(d, "s"), pyrepseq.renyi2_entropy(d, ["s", "t"], base=None),
                        pyrepseq.renyi2_entropy(d, "s", by="g"), pyrepseq.stdrenyi2_entropy(d, "s"), pyrepseq.stdrenyi2_entropy(d, ["s", "t"])], STATDF())


@spec("renyi_bad_base_raises", "entropy", raises=True)
def _():
    return S(pyrepseq.renyi2_entropy, STATDF(), "s", base=-1)


# --- plotting -------------------------------------------------------------------
@spec("rankfrequency", "plotting")
def _():
    def f(data):
        fig, ax = plt.subplots()
        l = PL.rankfrequency(data, ax=ax, normalize_y=True, scalex=2.0)
        return [canon_value(np.asarray(l[0].get_xdata())), canon_value(np.asarray(l[0].get_ydata())), ax.get_xlabel(), ax.get_xscale()]
    return S(closing(f), [3, 1, float("nan"), 5, 1])


@spec("rankfrequency_ndarray_counts", "plotting")
def _():
    def f(data):
        fig, ax = plt.subplots()
        l = PL.rankfrequency(data, ax=ax, normalize_x=False)
        return [canon_value(np.asarray(l[0].get_xdata())), canon_value(np.asarray(l[0].get_ydata()))]
    return S(closing(f), np.array([3.0, 1.0, 7.0, 5.0, 1.0]))


@spec("colors_hls_many_labels_seeded", "plotting", seed=34)
def _():
    return S(PL.labels_to_colors_hls, ["a", "b", "c", "d", "e", "f", "a", "b", "c", "d", "e", "f", "g"], min_count=2)


@spec("colors_tableau_many_seeded", "plotting", seed=35)
def _():
    return S(PL.labels_to_colors_tableau, list("abcdefgabcdefg"), min_count=1)


@spec("colors_hls_seeded", "plotting", seed=31)
def _():
    return S(PL.labels_to_colors_hls, LABELS(), min_count=2)


@spec("colors_hls_palette_seeded", "plotting", seed=32)
def _():
    return S(PL.labels_to_colors_hls, LABELS(), palette_kws=dict(l=0.3, s=0.9))


@spec("colors_tableau_seeded", "plotting", seed=33)
def _():
    return S(PL.labels_to_colors_tableau, np.array([1, 2, 1, 3, 3, 3]))


@spec("seqlogos", "plotting")
def _():
    return S(closing(lambda s: canon_value(PL.seqlogos(s)[1])), ["CAF", "CDF", "CAW"])


@spec("seqlogos_kwargs", "plotting")
def _():
    return S(closing(lambda s, **kw: canon_value(PL.seqlogos(s, **kw)[1])), ["CAF", "CDF", "CAW"], color_scheme="hydrophobicity")


@spec("density_scatter", "plotting")
def _():
    def f(x, y):
        fig, ax = plt.subplots()
        a = PL.density_scatter(x, y, ax=ax, discrete=True)
        c = a.collections[-1]
        return [canon_value(np.asarray(c.get_offsets())), canon_value(np.asarray(c.get_array()))]
    return S(closing(f), [1, 1, 2, 3, 3, 3], [3, 3, 4, 0, 0, 0])


@spec("label_axes", "plotting")
def _():
    def f():
        fig, axes = plt.subplots(ncols=2)
        PL.label_axes(fig, fontsize=9)
        return [[t.get_text() for t in ax.texts] for ax in axes]
    return S(closing(f))


@spec("clustermap_default", "plotting", seed=41)
def _():
    return S(closing(lambda d: fig_clustermap(PL.similarity_clustermap(d))), CLDF())


@spec("clustermap_cbar_kws", "plotting", seed=42)
def _():
    return S(closing(lambda d, **kw: fig_clustermap(PL.similarity_clustermap(d, **kw))), CLDF(),
             cbar_kws=dict(label="distance", orientation="horizontal"), linkage_kws=dict(method="single"), cluster_kws=dict(t=2, criterion="distance"))


@spec("clustermap_norm", "plotting", seed=43)
def _():
    return S(closing(lambda d, **kw: fig_clustermap(PL.similarity_clustermap(d, **kw))), CLDF(), norm=matplotlib.colors.Normalize(vmin=0, vmax=4))


@spec("clustermap_single_chain_meta", "plotting", seed=44)
def _():
    return S(closing(lambda d, **kw: fig_clustermap(PL.similarity_clustermap(d, **kw))), CLDF(), alpha_column=None, meta_columns=["epitope"],
             bounds=np.arange(0, 5, 1))


@spec("clustermap_short_mapper_list", "plotting", seed=45)
def _():
    # fewer colour mappers than 1 + len(meta_columns), in the caller's own (mutable) list
    return S(closing(lambda d, **kw: fig_clustermap(PL.similarity_clustermap(d, **kw))), CLDF(), meta_columns=["epitope", "cdr3a"],
             meta_to_colors=[PL.labels_to_colors_hls])


@spec("clustermap_mapper_list", "plotting", seed=46)
def _():
    return S(closing(lambda d, **kw: fig_clustermap(PL.similarity_clustermap(d, **kw))), CLDF(), meta_columns={"epitope": "Epitope"},
             meta_to_colors=[PL.labels_to_colors_tableau, PL.labels_to_colors_hls])


NAMES = sorted(CATALOGUE)
# calls that take seconds: executed in the enumerated sub-checks only, never drawn at random
LIGHT = [n for n in NAMES if not CATALOGUE[n]["heavy"]]
HEAVY = [n for n in NAMES if CATALOGUE[n]["heavy"]]


def run_spec(name):
    """Execute one catalogue call. Returns (canonical result, argument-purity report)."""
    sp = CATALOGUE[name]
    call = sp["builder"]()
    args, kwargs = call["args"], call["kwargs"]
    before = canon_value([args, kwargs])
    if sp["seed"] is not None:
        np.random.seed(sp["seed"])
    random.seed(7)
    try:
        res = call["fn"](*args, **kwargs)
        out = {"value": call["post"](res)}
    except Exception as e:  # noqa: BLE001
        out = {"raises": type(e).__name__}
    finally:
        plt.close("all")
    after = canon_value([args, kwargs])
    if not sp["value"] and "value" in out:
        out = {"value": "<not compared: draws from a non-NumPy RNG>"}
    return out, (before == after), (before, after)
