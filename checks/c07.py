"""C07 — Hamming mode: exactly the equal-length pairs within max_edits mismatches."""
from hypothesis import strategies as st

from vlib.common import Sub, Violation, call, trip, same_multiset, O, G
from checks.nnlib import pyrepseq, nn, related_queries

PROPERTY = "C07"
QUICK_SCALE = 4
RULE = ("random: amino-acid lists built from 2-4 length classes whose members are scattered over the positions by explicit "
        "interleaving patterns (odd class first, alternating, descending, shuffled), near-identical members inside a class, "
        "indel-shifted copies across classes (Levenshtein-1 but not Hamming neighbours), duplicates; exhaustive: all strings of "
        "length 1..L over AC in several rotations; k=1..3; engines nearest_neighbor, symdel, symdel(seqs2=), SymdelDB.lookup, "
        "hash_based, kdtree, all with custom_distance='hamming'. Oracle: brute-force mismatch count on equal-length pairs, "
        "multiset equality. Non-trivial: >= 2 length classes, list not sorted by length, and a true Hamming pair whose members "
        "are not both in the first length class encountered.")
ASSUMPTIONS = ["amino-acid alphabet (hash_based and kdtree are defined on it)"]

SELF_ENGINES = ["nearest_neighbor", "symdel", "hash_based", "kdtree"]
CROSS_ENGINES = ["symdel2", "symdeldb"]


def selftest():
    O.selftest()


def run_self(engine, seqs, k):
    f = {"nearest_neighbor": pyrepseq.nearest_neighbor, "symdel": pyrepseq.symdel,
         "hash_based": pyrepseq.hash_based, "kdtree": pyrepseq.kdtree}[engine]
    return f(list(seqs), max_edits=k, custom_distance="hamming")


def run_cross(engine, refs, queries, k):
    if engine == "symdel2":
        return pyrepseq.symdel(list(refs), max_edits=k, custom_distance="hamming", seqs2=list(queries))
    return nn.SymdelDB(list(refs), k).lookup(list(queries), custom_distance="hamming")


def classify(seqs, want):
    lens = [len(s) for s in seqs]
    cl = []
    if len(set(lens)) >= 2:
        cl.append("multi_length")
    if lens != sorted(lens) and lens != sorted(lens, reverse=True):
        cl.append("interleaved")
    first = lens[0] if lens else None
    if any(not (lens[i] == first) for i, j, d in want):
        cl.append("pair_outside_first_class")
    if any(d == 0 for _, _, d in want):
        cl.append("dup_pair")
    # Levenshtein-close but not Hamming-close pairs present?
    return cl


def seqs_of(case):
    if "seqs" in case:
        return case["seqs"]
    seqs = O.all_strings(case["alphabet"], case["L"], 1)
    r = case["rot"] % len(seqs)
    seqs = seqs[r:] + seqs[:r]
    # deterministic interleave of the length classes
    step = case.get("step", 1)
    if step > 1:
        seqs = [seqs[(i * step) % len(seqs)] for i in range(len(seqs))] if _coprime(step, len(seqs)) else seqs
    return seqs


def _coprime(a, b):
    while b:
        a, b = b, a % b
    return a == 1


def check_self(case, rec):
    seqs = seqs_of(case)
    k = case["k"]
    want = O.neighbours_self(seqs, k, O.ham)
    cl = classify(seqs, want)
    rec.note(case, {"multi_length", "interleaved", "pair_outside_first_class"} <= set(cl), cl + [case["engine"]])
    got = trip(call("search", run_self, case["engine"], seqs, k))
    same_multiset("hamming-set", got, want, f"engine={case['engine']} k={k} seqs={seqs[:12]}")


def check_cross(case, rec):
    refs, queries, k = case["refs"], case["queries"], case["k"]
    want = O.neighbours_cross(queries, refs, k, O.ham)
    lens = [len(s) for s in refs]
    cl = []
    if len(set(lens)) >= 2:
        cl.append("multi_length")
    if any(d == 0 for _, _, d in want):
        cl.append("d0_hit")
    if any(q == r for q, r, _ in want):
        cl.append("equal_positions_hit")
    lev_only = any(O.lev(q, r) <= k and len(q) != len(r) for q in queries for r in refs)
    if lev_only:
        cl.append("lev_close_not_hamming")
    rec.note(case, "multi_length" in cl and bool(want), cl + [case["engine"]])
    got = trip(call("search", run_cross, case["engine"], refs, queries, k))
    same_multiset("hamming-cross-set", got, want, f"engine={case['engine']} k={k}")


@st.composite
def mixed_length_list(draw, max_per_class=8):
    alpha = draw(st.sampled_from(["AC", "ACD", G.AA, G.AA]))
    nclass = draw(st.integers(2, 4))
    base_len = draw(st.integers(1, 8))
    founder = "".join(draw(st.lists(st.sampled_from(alpha), min_size=base_len + nclass, max_size=base_len + nclass)))
    classes = []
    for c in range(nclass):
        L = base_len + c
        mode = draw(st.sampled_from(["prefix", "suffix", "fresh"]))
        if mode == "prefix":
            f = founder[:L]
        elif mode == "suffix":
            f = founder[-L:]
        else:
            f = "".join(draw(st.lists(st.sampled_from(alpha), min_size=L, max_size=L)))
        members = [f]
        for _ in range(draw(st.integers(0, max_per_class - 1))):
            s = list(f)
            for _ in range(draw(st.integers(0, 3))):
                p = draw(st.integers(0, L - 1))
                s[p] = draw(st.sampled_from(alpha))
            members.append("".join(s))
        classes.append(members)
    pattern = draw(st.sampled_from(["odd_first", "alternating", "descending", "shuffled", "long_first_then_mix"]))
    if pattern == "descending":
        seqs = [s for cl in reversed(classes) for s in cl]
    elif pattern == "alternating":
        seqs = []
        i = 0
        while any(classes):
            cl = classes[i % nclass]
            if cl:
                seqs.append(cl.pop(0))
            i += 1
    elif pattern == "odd_first":
        seqs = [classes[-1][0]] + [s for cl in classes[:-1] for s in cl] + classes[-1][1:]
    elif pattern == "long_first_then_mix":
        rest = [s for cl in classes[:-1] for s in cl]
        rest = list(draw(st.permutations(rest)))
        seqs = classes[-1][:1] + rest + classes[-1][1:]
    else:
        seqs = list(draw(st.permutations([s for cl in classes for s in cl])))
    return seqs, alpha


@st.composite
def self_case(draw, tier="quick"):
    seqs, alpha = draw(mixed_length_list())
    engine = draw(st.sampled_from(SELF_ENGINES))
    k = draw(st.sampled_from([1, 2, 3]))
    if engine == "hash_based" and k >= 2:
        seqs = [s[:7] for s in seqs][:12]
        k = 2
    return {"seqs": seqs, "k": k, "engine": engine}


@st.composite
def cross_case(draw, tier="quick"):
    refs, alpha = draw(mixed_length_list())
    k = draw(st.sampled_from([1, 2, 3]))
    queries = draw(related_queries(refs, alpha, max_size=15, max_edits=3))
    if draw(st.booleans()):
        queries = list(refs[: draw(st.integers(1, len(refs)))]) + queries
    return {"refs": refs, "queries": queries, "k": k, "engine": draw(st.sampled_from(CROSS_ENGINES))}


def enum_cases(tier):
    L = 4 if tier == "quick" else 5
    for engine in SELF_ENGINES:
        for k in (1, 2, 3):
            for rot, step in ((0, 1), (3, 7), (11, 13), (17, 1)):
                LL = L
                if engine == "hash_based" and k == 3:
                    LL = 3
                yield {"alphabet": "AC", "L": LL, "k": k, "engine": engine, "rot": rot, "step": step}


def check_dense(case, rec):
    """Dense equal-length families (all single substitutions of 1-3 founders) mixed with shorter and longer sequences: hundreds of
    mutual Hamming neighbours, many exactly on the radius, in one length bucket of several hundred sequences."""
    k = case["k"]
    seqs, meta = G.dense_collection(case["founders"], case.get("per_founder"), case.get("step", 1))
    want = G.dense_neighbours(meta, k)                      # equal length, substitutions only: Hamming == Levenshtein here
    extra = ["CASSLGQAYEQ", "CASSLGQAYEQYF", "CASSLGQAYEQ", "W"]      # other lengths, interleaved; the two equal ones are neighbours
    full = list(seqs)
    for i, e in enumerate(extra):
        full.insert((i * 37) % (len(full) + 1), e)
    # positions of the family members and of the other-length sequences inside `full` (no family member has their lengths)
    mapping = [i for i, s_ in enumerate(full) if len(s_) == 12]
    ex_pos = [i for i, s_ in enumerate(full) if len(s_) != 12]
    want_full = [(mapping[a], mapping[b], d) for a, b, d in want]
    e11 = [i for i in ex_pos if full[i] == "CASSLGQAYEQ"]
    want_full += [(e11[0], e11[1], 0), (e11[1], e11[0], 0)]
    rec.note(case, True, [f"n={len(full)}", case["engine"], f"k={k}"])
    got = trip(call("search", run_self, case["engine"], full, k))
    same_multiset("dense-hamming-set", got, want_full, f"engine={case['engine']} k={k} n={len(full)} (all substitutions of {case['founders']} founder(s) plus other lengths)")


def enum_dense(tier):
    yield {"engine": "kdtree", "founders": 2, "k": 1}
    yield {"engine": "kdtree", "founders": 1, "k": 2}
    yield {"engine": "symdel", "founders": 2, "k": 1}
    yield {"engine": "hash_based", "founders": 1, "per_founder": 80, "step": 3, "k": 1}
    if tier == "thorough":
        yield {"engine": "kdtree", "founders": 3, "k": 2}
        yield {"engine": "nearest_neighbor", "founders": 3, "k": 2}
        yield {"engine": "hash_based", "founders": 2, "k": 1}


SUBS = [
    Sub("self_exhaustive", check_self, enum=enum_cases),
    Sub("dense", check_dense, enum=enum_dense),
    Sub("self_random", check_self, strategy=lambda tier: self_case(tier), budget=(2500, 30000)),
    Sub("cross_random", check_cross, strategy=lambda tier: cross_case(tier), budget=(1200, 12000)),
]
