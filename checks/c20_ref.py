#!/venv/bin/python
"""Run a history of catalogue calls in THIS (fresh) interpreter and print the canonical outputs.
usage: c20_ref.py NAME [NAME ...]"""
import json
import os
import sys

sys.path.insert(0, os.path.dirname(os.path.dirname(os.path.abspath(__file__))))
from vlib import boot  # noqa: E402,F401
from checks import c20_catalogue as CAT  # noqa: E402

outs = []
for name in sys.argv[1:]:
    out, args_ok, _ = CAT.run_spec(name)
    out = dict(out)
    if not args_ok:
        out["_args_ok"] = False
    outs.append(out)
print("C20REF " + json.dumps(outs))
