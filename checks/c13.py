"""C13 — grouped / conditional / entropy statistics are compositions of pc and pcDelta."""
import math
from collections import Counter, OrderedDict
from fractions import Fraction

import numpy as np
import pandas as pd
from hypothesis import strategies as st

from vlib import boot
from vlib.common import Sub, Violation, call, close, all_close, O, G

pyrepseq = boot.import_pyrepseq()

PROPERTY = "C13"
QUICK_SCALE = 3
RULE = ("tables of 2-40 rows with 1-2 grouping columns (string or int keys, unsorted, with singleton groups, sometimes only "
        "singleton groups), a label feature column and a sequence feature column, positive group weights (one per group with "
        ">= 2 members, sorted-key order), bases in {2, e, 10, other, None}, bins in {edge vector, 0}, condensed in {T,F}. Oracle: "
        "grouping with a plain dict, then the C02/C05 oracles: pc_conditional = sum w_g^2 pc(g) / sum w_g^2 over groups with >= 2 "
        "members (none => NaN); pc_grouped_cross[g,h] = cross pc, symmetric, NaN diagonal, labels = sorted keys; pcDelta_grouped "
        "row g = pcDelta of group g alone (NaN row for a singleton group); pcDelta_grouped_cross condensed row (g,h) = "
        "two-collection histogram; square form (bins=0): off-diagonal cross pc, diagonal within-group pc; renyi2_entropy = "
        "-ln(pc | pc_joint | pc_conditional)/ln(base); stdrenyi2_entropy = stdpc/(pc ln base) with stdpc from an independently "
        "derived variance estimator. Tolerance 1e-12 (1e-9 for std). Non-trivial: >= 3 groups of which >= 1 singleton and >= 2 "
        "with internal coincidences.")
ASSUMPTIONS = ["the square form of pcDelta_grouped_cross is decided on bins=0 (with an edge vector the function raises for every "
               "input and the statement does not define a square table of histograms); the condensed form on both",
               "cell text contains neither '.' nor '_'"]


def group_rows(rows, bykeys):
    g = {}
    for r in rows:
        k = tuple(r["g"][i] for i in bykeys)
        if len(k) == 1:
            k = k[0]
        g.setdefault(k, []).append(r)
    return OrderedDict(sorted(g.items(), key=lambda kv: kv[0]))


def build(case):
    rows = case["rows"]
    g0 = "g0" if not case.get("by_name_contains_features") else "grp_lab"
    data = {g0: [r["g"][0] for r in rows], "g1": [r["g"][1] for r in rows],
            "lab": [r["lab"] for r in rows], "seq": [r["seq"] for r in rows], "extra": list(range(len(rows)))}
    df = pd.DataFrame(data)
    if case.get("index") == "str":
        df.index = [f"r{i}" for i in range(len(df))]
    elif case.get("index") == "rev":
        df.index = list(range(len(df)))[::-1]
    elif case.get("index") == "dup":
        df.index = [i % 3 for i in range(len(df))]        # per-donor tables concatenated without ignore_index: labels repeat
    return df


def feature(r, on):
    if isinstance(on, list):
        return tuple(r[c] for c in on)
    return r[on]


def own_varpc(sample):
    """Exact (Fraction) unbiased variance estimate of pc, derived independently from U-statistic theory."""
    c = list(Counter(sample).values())
    N = sum(c)
    if N < 4:
        return None
    p2 = Fraction(sum(n * (n - 1) for n in c), N * (N - 1))
    p3 = Fraction(sum(n * (n - 1) * (n - 2) for n in c), N * (N - 1) * (N - 2))
    cc = Fraction(2, N * (N - 1))
    return cc * (2 * (N - 2) * p3 + p2 - (2 * N - 3) * p2 * p2) / (1 - cc * (2 * N - 3))


def own_stdpc(sample):
    c = list(Counter(sample).values())
    N = sum(c)
    if N < 4:
        return None
    p2 = Fraction(sum(n * (n - 1) for n in c), N * (N - 1))
    p3 = Fraction(sum(n * (n - 1) * (n - 2) for n in c), N * (N - 1) * (N - 2))
    cc = Fraction(2, N * (N - 1))
    var = cc * (2 * (N - 2) * p3 + p2 - (2 * N - 3) * p2 * p2) / (1 - cc * (2 * N - 3))
    return math.sqrt(var) if var >= 0 else float("nan")


def fl(x):
    return float("nan") if x is None else float(x)


def label_positions(index, names, kind):
    """Map every expected group label to its position in a result axis. The ORDER of the groups in the result is not
    part of the property, only that every group appears exactly once under its own label."""
    labs = labels_of(index)
    if len(labs) != len(names) or sorted(labs, key=repr) != sorted(names, key=repr):
        raise Violation(kind, f"group labels {labs} are not exactly the groups {names}")
    return {l: i for i, l in enumerate(labs)}


def labels_of(index):
    """Group labels as the caller sees them; pandas labels groups of a one-element `by` list with 1-tuples,
    which the property does not forbid, so they are unwrapped before comparison."""
    out = []
    for x in index:
        if isinstance(x, tuple) and len(x) == 1:
            x = x[0]
        out.append(norm_label(x))
    return out


def norm_label(x):
    """NumPy scalars -> Python scalars (recursively inside tuples) so that labels compare and hash like the keys."""
    if isinstance(x, tuple):
        return tuple(norm_label(y) for y in x)
    if hasattr(x, "item") and not isinstance(x, (str, bytes)):
        try:
            return x.item()
        except Exception:  # noqa: BLE001
            return x
    return x


def check(case, rec):
    rows = case["rows"]
    nby = case["nby"]
    bykeys = list(range(nby))
    by = ["g0" if not case.get("by_name_contains_features") else "grp_lab", "g1"][:nby]
    by_arg = by if (nby > 1 or case.get("by_as_list")) else by[0]
    on = case["on"]  # "lab" | "seq" | ["lab","seq"]
    groups = group_rows(rows, bykeys)
    big = OrderedDict((k, v) for k, v in groups.items() if len(v) >= 2)
    df = build(case)
    before = df.copy(deep=True)
    nsingle = sum(1 for v in groups.values() if len(v) == 1)
    ncoinc = sum(1 for v in big.values() if O.pc_exact([feature(r, on) for r in v]) > 0)
    cl = [f"groups={min(len(groups), 6)}", f"singletons={min(nsingle, 3)}", f"nby={nby}", "on=list" if isinstance(on, list) else f"on={on}"]
    if not big:
        cl.append("only_singletons")
    rec.note(case, len(groups) >= 3 and nsingle >= 1 and ncoinc >= 2, cl)

    # ---- pc_conditional
    weights = case.get("weights")
    pcs = [O.pc_exact([feature(r, on) for r in v]) for v in big.values()]
    if not big:
        want = float("nan")
    else:
        w = [Fraction(1)] * len(big) if weights is None else [Fraction(x).limit_denominator(10 ** 6) for x in weights[:len(big)]]
        if weights is not None and len(weights) < len(big):
            w = w + [Fraction(1)] * (len(big) - len(w))
        wf = [float(x) for x in w]
        want = sum(x * x * float(p) for x, p in zip(wf, pcs)) / sum(x * x for x in wf)
    kw = {}
    if weights is not None and big:
        kw["group_weights"] = [float(x) for x in w]
        if case.get("weights_as") == "float64_array":
            kw["group_weights"] = np.array(kw["group_weights"], dtype=np.float64)   # one object, reused by the entropy call below
        elif case.get("weights_as") == "series_default":
            kw["group_weights"] = pd.Series(kw["group_weights"])                    # array-like: taken by position, whatever its labels
        elif case.get("weights_as") == "series_labelled":
            kw["group_weights"] = pd.Series(kw["group_weights"], index=[f"w{i}" for i in range(len(w))][::-1])
        elif case.get("weights_as") == "tuple":
            kw["group_weights"] = tuple(kw["group_weights"])
    got = call("pc_conditional", pyrepseq.pc_conditional, df, by_arg, on, **kw)
    if not close(got, want, 1e-12):
        raise Violation("pc_conditional", f"by={by_arg} on={on} weights={kw.get('group_weights')}: got {got!r}, want {want!r}")

    # ---- pc_grouped_cross
    if len(groups) >= 2:
        m = call("pc_grouped_cross", pyrepseq.pc_grouped_cross, df, by_arg, on)
        names = list(groups.keys())
        ri, ci = label_positions(m.index, names, "pc_grouped_cross-labels"), label_positions(m.columns, names, "pc_grouped_cross-labels")
        for ka in names:
            for kb in names:
                a, b = names.index(ka), names.index(kb)
                v = m.values[ri[ka], ci[kb]]
                if a == b:
                    if not math.isnan(v):
                        raise Violation("pc_grouped_cross-diagonal", f"diagonal [{ka}] = {v!r}, expected undefined (NaN)")
                    continue
                exp = O.pc_cross_exact([feature(r, on) for r in groups[ka]], [feature(r, on) for r in groups[kb]])
                if not close(v, exp, 1e-12):
                    raise Violation("pc_grouped_cross-value", f"[{ka},{kb}] = {v!r}, expected {float(exp)!r}")

    # ---- pcDelta_grouped / pcDelta_grouped_cross on the sequence column
    edges = case["bins"]
    names = list(groups.keys())
    if edges != 0:
        t = call("pcDelta_grouped", pyrepseq.pcDelta_grouped, df, by_arg, "seq", bins=list(edges))
        rpos = label_positions(t.index, names, "pcDelta_grouped-labels")
        for k, v in groups.items():
            seqs = [r["seq"] for r in v]
            d = [O.lev(seqs[i], seqs[j]) for i in range(len(seqs)) for j in range(i + 1, len(seqs))]
            h = O.hist(d, edges)
            tot = sum(h)
            exp = [x / tot if tot else float("nan") for x in h]
            row = t.values[rpos[k]]
            all_close("pcDelta_grouped-row", list(row), exp, f"group {k}")
        if len(groups) >= 2:
            mkw = {}
            if case.get("maxseqs_noop"):
                # maxseqs at least every group size but below the table size: each pairwise pcDelta keeps all its members
                mkw["maxseqs"] = max(len(v_) for v_ in groups.values())
            c = call("pcDelta_grouped_cross", pyrepseq.pcDelta_grouped_cross, df, by_arg, "seq", condensed=True, bins=list(edges), **mkw)
            pairs = [(a, b) for i, a in enumerate(names) for b in names[i + 1:]]
            if len(c) != len(pairs):
                raise Violation("pcDelta_grouped_cross-rows", f"{len(c)} rows, expected {len(pairs)}")
            rows_by_pair = {}
            for ri2 in range(len(c)):
                lab = tuple(labels_of(c.index[ri2]))
                rows_by_pair[frozenset(lab) if len(lab) == 2 else lab] = ri2
            for (a, b) in pairs:
                key = frozenset([a, b])
                if key not in rows_by_pair:
                    raise Violation("pcDelta_grouped_cross-labels", f"no row labelled with the pair {(a, b)}: {list(c.index)}")
                d = [O.lev(x["seq"], y["seq"]) for x in groups[a] for y in groups[b]]
                h = O.hist(d, edges)
                tot = sum(h)
                exp = [x / tot if tot else float("nan") for x in h]
                all_close("pcDelta_grouped_cross-row", list(c.values[rows_by_pair[key]]), exp, f"groups {a} x {b}")
    else:
        within = {k: (O.pc_exact([r["seq"] for r in v]) if len(v) >= 2 else None) for k, v in groups.items()}
        t = call("pcDelta_grouped0", pyrepseq.pcDelta_grouped, df, by_arg, "seq", bins=0)
        vals = np.asarray(t)
        if vals.size != len(groups):
            raise Violation("pcDelta_grouped-bins0", f"bins=0: result holds {vals.size} values for {len(groups)} groups: {t!r}"[:600])
        rpos = label_positions(t.index, names, "pcDelta_grouped-labels")
        flat = vals.reshape(-1).tolist()
        all_close("pcDelta_grouped-bins0-value", [flat[rpos[k]] for k in names], [fl(within[k]) for k in names], "bins=0 per-group pc")
        if len(groups) >= 2:
            sq = call("pcDelta_grouped_cross0", pyrepseq.pcDelta_grouped_cross, df, by_arg, "seq", bins=0)
            if case.get("maxseqs_noop"):
                t2 = call("pcDelta_grouped-maxseqs", pyrepseq.pcDelta_grouped, df, by_arg, "seq", bins=0, maxseqs=max(len(v_) for v_ in groups.values()))
                if not np.allclose(np.asarray(t2, dtype=float).reshape(-1), np.asarray(t, dtype=float).reshape(-1), equal_nan=True):
                    raise Violation("pcDelta_grouped-maxseqs", "maxseqs >= every group size changes the per-group values")
            ri, ci = label_positions(sq.index, names, "pcDelta_grouped_cross-labels"), label_positions(sq.columns, names, "pcDelta_grouped_cross-labels")
            for a, ka in enumerate(names):
                for b, kb in enumerate(names):
                    v = sq.values[ri[ka], ci[kb]]
                    if a == b:
                        exp = fl(within[ka])
                        if not close(v, exp, 1e-12):
                            raise Violation("pcDelta_grouped_cross-diagonal", f"square form diagonal [{ka}] = {v!r}, within-group value {exp!r}")
                    else:
                        exp = O.pc_cross_exact([r["seq"] for r in groups[ka]], [r["seq"] for r in groups[kb]])
                        if not close(v, exp, 1e-12):
                            raise Violation("pcDelta_grouped_cross-offdiag", f"[{ka},{kb}] = {v!r}, expected {float(exp)!r}")
            if len(groups) >= 3:
                c = call("pcDelta_grouped_cross0c", pyrepseq.pcDelta_grouped_cross, df, by_arg, "seq", bins=0, condensed=True)
                pairs = [(a, b) for i, a in enumerate(names) for b in names[i + 1:]]
                flat = np.asarray(c).reshape(-1).tolist()
                if len(flat) != len(pairs):
                    raise Violation("pcDelta_grouped_cross-rows", f"bins=0 condensed: {len(flat)} values for {len(pairs)} pairs")
                byp = {frozenset(labels_of(c.index[i])): flat[i] for i in range(len(flat))}
                for a, b in pairs:
                    exp = float(O.pc_cross_exact([r["seq"] for r in groups[a]], [r["seq"] for r in groups[b]]))
                    if frozenset([a, b]) not in byp or not close(byp[frozenset([a, b])], exp, 1e-12):
                        raise Violation("pcDelta_grouped_cross-condensed0", f"pair {(a, b)}: got {byp.get(frozenset([a, b]))!r}, expected {exp!r}")

    # ---- entropies
    base = case.get("base", 2.0)
    lb = 1.0 if base is None else math.log(base)
    allf = [feature(r, on) for r in rows]
    pc_all = O.pc_exact(allf)
    ekw = {} if "base" not in case else {"base": base}
    ent = call("renyi2", pyrepseq.renyi2_entropy, df, on, **ekw)
    want_e = (float("inf") if pc_all == 0 else -math.log(pc_all)) / lb
    if not close(ent, want_e, 1e-12, 1e-12):
        raise Violation("renyi2_entropy", f"features={on} base={base}: got {ent!r}, want {want_e!r}")
    entc = call("renyi2-cond", pyrepseq.renyi2_entropy, df, on, by=by_arg, **ekw, **kw)
    if isinstance(want, float) and math.isnan(want):
        want_c = float("nan")
    else:
        want_c = (float("inf") if want == 0 else -math.log(want)) / lb
    if not close(entc, want_c, 1e-11, 1e-12):
        raise Violation("renyi2_entropy-conditional", f"by={by_arg} features={on} base={base}: got {entc!r}, want {want_c!r}")
    var = own_varpc(allf)
    if var is not None and pc_all > 0:
        got_s = float(call("stdrenyi2", pyrepseq.stdrenyi2_entropy, df, on, **ekw))
        # compare on the variance scale: the float estimator cancels catastrophically when the variance is ~0
        # (an all-identical sample has exact variance 0 and the float estimate may round to a tiny negative
        # number, whose square root is NaN - accepted, like a negative estimate)
        if var <= 1e-12:
            ok = math.isnan(got_s) or (got_s * float(pc_all) * lb) ** 2 <= 1e-11
        else:
            gv = (got_s * float(pc_all) * lb) ** 2
            ok = abs(gv - float(var)) <= 1e-12 + 1e-9 * float(var) and (got_s >= 0) == (lb > 0)
        if not ok:
            want_s = math.sqrt(var) / (float(pc_all) * lb) if var >= 0 else float("nan")
            raise Violation("stdrenyi2_entropy", f"features={on} base={base}: got {got_s!r}, want {want_s!r}")
    if not before.equals(df):
        raise Violation("mutates-input", "table changed by a grouped statistic")
    if isinstance(kw.get("group_weights"), np.ndarray) and kw["group_weights"].tolist() != [float(x) for x in w]:
        raise Violation("mutates-weights", f"the caller's weight array changed to {kw['group_weights'].tolist()}")


@st.composite
def table_case(draw, tier="quick"):
    ngroups = draw(st.integers(1, 6))
    keytype = draw(st.sampled_from(["str", "int"]))
    keys0 = ["b", "a", "d", "c", "B", "aa"] if keytype == "str" else [3, 10, 1, 2, -4, 27]
    keys1 = ["x", "y"] if draw(st.booleans()) else [1, 0]
    nby = draw(st.sampled_from([1, 1, 2]))
    labels = ["L1", "L2", "L3", "L 4"]
    alpha = draw(st.sampled_from(["A", "AC", "ACD"]))
    founders = [draw(st.text(alphabet=alpha, min_size=1, max_size=5)) for _ in range(3)]
    seqpool = founders + [f + alpha[0] for f in founders] + [f[:-1] or alpha[-1] for f in founders]
    rows = []
    only_single = draw(st.integers(0, 9)) == 0
    for gi in range(ngroups):
        size = 1 if only_single else draw(st.sampled_from([1, 1, 2, 2, 3, 4, 6]))
        k0 = keys0[gi]
        glabels = draw(st.lists(st.sampled_from(labels), min_size=1, max_size=2))
        gseqs = draw(st.lists(st.sampled_from(seqpool), min_size=1, max_size=3))
        for _ in range(size):
            k1 = draw(st.sampled_from(keys1)) if nby == 2 else keys1[0]
            rows.append({"g": [k0, k1], "lab": draw(st.sampled_from(glabels)), "seq": draw(st.sampled_from(gseqs))})
    if draw(st.integers(0, 2)) == 0:
        # two different (label, sequence) rows whose texts coincide when written one after the other: ('L1', 'A' + s) / ('L1A', s)
        s0 = draw(st.sampled_from(seqpool))
        g = rows[0]["g"]
        for _ in range(draw(st.integers(1, 2))):
            rows.append({"g": list(g), "lab": "L1", "seq": "A" + s0})
            rows.append({"g": list(g), "lab": "L1A", "seq": s0})
    if len(rows) < 2:
        rows.append(dict(rows[0]))
    rows = list(draw(st.permutations(rows)))
    case = {"rows": rows, "nby": nby, "on": draw(st.sampled_from(["lab", "seq", ["lab", "seq"]])),
            "bins": draw(st.sampled_from([0, 0, [0, 1, 2, 3], [0, 1, 2, 4, 8], [1, 2, 3], [0, 2, 20]])),
            "index": draw(st.sampled_from(["default", "str", "rev", "dup"])), "by_as_list": draw(st.booleans()),
            "maxseqs_noop": draw(st.booleans()), "by_name_contains_features": draw(st.booleans())}
    if draw(st.booleans()):
        case["weights"] = draw(st.lists(st.sampled_from([0.5, 1, 2, 3, 1.25, 10]), min_size=6, max_size=12))
        case["weights_as"] = draw(st.sampled_from(["list", "float64_array", "series_default", "series_labelled", "tuple"]))
    if draw(st.booleans()):
        case["base"] = draw(st.sampled_from([2.0, math.e, 10.0, 3.5, None, 0.5]))
    return case


SUBS = [
    Sub("tables", check, strategy=lambda t: table_case(t), budget=(1200, 15000)),
]
