"""C09 — TCR Levenshtein metrics are the stated weighted sum over chains and CDR loops."""
import numpy as np
import pandas as pd
from hypothesis import strategies as st

from vlib import boot
from vlib.common import Sub, Violation, call, O, G

pyrepseq = boot.import_pyrepseq()
from pyrepseq.metric import tcr_metric as TM  # noqa: E402
from tidytcells import tr  # noqa: E402

PROPERTY = "C09"
QUICK_SCALE = 2
RULE = ("anchor and comparison tables (1-10 rows) with TRAV/TRBV alleles drawn from the gene reference (incl. alleles lacking CDR2: "
        "TRAV40*01, TRAV2*02), arbitrary CDR3 strings (incl. empty), extra columns, index default / permuted / string / "
        "duplicated; all six metric classes; weights 1..9 for insertion, deletion, substitution, alpha, beta, cdr1, cdr2, cdr3 "
        "(whichever the class accepts). Oracle: sum over chains and loops of chain_w * loop_w * own weighted DP(loop_i -> loop_j) "
        "with CDR1/CDR2 looked up independently through tidytcells (missing loop => ''), exact equality; identities Cdr3 == "
        "a*AlphaCdr3 + b*BetaCdr3 and Cdr == a*AlphaCdr + b*BetaCdr; row permutation permutes the matrix; relabelling the index "
        "changes nothing; calc_pdist_vector == condensed upper triangle of the self cdist; non-DataFrame / DataFrame without any "
        "TCR column => ValueError; caller's frames unchanged. Non-trivial: >= 2 distinct V alleles per chain, a non-default index, "
        "and a weight vector with alpha != beta or cdr1 != cdr2 or ins != del.")
ASSUMPTIONS = ["the V-allele -> CDR1/CDR2 lookup is tidytcells' (trusted); what is decided is pyrepseq's routing, weighting and summation",
               "tables carry all four TCR columns for the all-CDR metrics (a table lacking only the needed column raises KeyError/"
               "AttributeError today, which the property does not speak about)"]

_POOL = {}


def pool(chain):
    if chain not in _POOL:
        out = []
        for g in sorted(tr.query(precision="allele")):
            if g.startswith(f"TR{chain}V"):
                try:
                    d = tr.get_aa_sequence(g)
                except Exception:  # noqa: BLE001
                    continue
                out.append((g, d.get("CDR1-IMGT", ""), d.get("CDR2-IMGT", "")))
        # alleles lacking a loop first so that small indices reach them
        out.sort(key=lambda x: (bool(x[1]) and bool(x[2]), x[0]))
        _POOL[chain] = out
    return _POOL[chain]


def selftest():
    O.selftest()
    if len(pool("A")) < 20 or len(pool("B")) < 20:
        raise RuntimeError("gene reference pool too small")


CLASSES = {
    "AlphaCdr3": (TM.AlphaCdr3Levenshtein, ["A"], ["3"], ["ins", "del", "sub"]),
    "BetaCdr3": (TM.BetaCdr3Levenshtein, ["B"], ["3"], ["ins", "del", "sub"]),
    "Cdr3": (TM.Cdr3Levenshtein, ["A", "B"], ["3"], ["ins", "del", "sub", "alpha", "beta"]),
    "AlphaCdr": (TM.AlphaCdrLevenshtein, ["A"], ["1", "2", "3"], ["ins", "del", "sub", "cdr1", "cdr2", "cdr3"]),
    "BetaCdr": (TM.BetaCdrLevenshtein, ["B"], ["1", "2", "3"], ["ins", "del", "sub", "cdr1", "cdr2", "cdr3"]),
    "Cdr": (TM.CdrLevenshtein, ["A", "B"], ["1", "2", "3"], ["ins", "del", "sub", "alpha", "beta", "cdr1", "cdr2", "cdr3"]),
}
KW = {"ins": "insertion_weight", "del": "deletion_weight", "sub": "substitution_weight", "alpha": "alpha_weight",
      "beta": "beta_weight", "cdr1": "cdr1_weight", "cdr2": "cdr2_weight", "cdr3": "cdr3_weight"}


def make_metric(name, w):
    cls, chains, loops, accepted = CLASSES[name]
    return cls(**{KW[k]: v for k, v in w.items() if k in accepted})


def loops_of(row):
    va, vb = pool("A")[row["va"] % len(pool("A"))], pool("B")[row["vb"] % len(pool("B"))]
    return {"A1": va[1], "A2": va[2], "A3": row["a"], "B1": vb[1], "B2": vb[2], "B3": row["b"], "TRAV": va[0], "TRBV": vb[0]}


def oracle(name, w, r, s):
    cls, chains, loops, accepted = CLASSES[name]
    lr, ls = loops_of(r), loops_of(s)
    tot = 0
    for c in chains:
        cw = w.get({"A": "alpha", "B": "beta"}[c], 1) if {"A": "alpha", "B": "beta"}[c] in accepted else 1
        for lp in loops:
            lw = w.get("cdr" + lp, 1) if ("cdr" + lp) in accepted else 1
            tot += cw * lw * O.wlev(lr[c + lp], ls[c + lp], w.get("ins", 1), w.get("del", 1), w.get("sub", 1))
    return tot


def frame(rows, index, extra=True, chains=("A", "B")):
    recs = []
    for i, r in enumerate(rows):
        l = loops_of(r)
        d = {}
        if "A" in chains:
            d["TRAV"], d["CDR3A"] = l["TRAV"], r["a"]
        if "B" in chains:
            d["TRBV"], d["CDR3B"] = l["TRBV"], r["b"]
        if extra:
            d["clone_count"] = i * 3
            d["Epitope"] = "GILGFVFTL"
        recs.append(d)
    n = len(recs)
    idx = {"default": None, "perm": list(range(n))[::-1], "str": [f"tcr{i}" for i in range(n)], "dup": [i // 2 for i in range(n)],
           "shifted": list(range(100, 100 + n))}[index]
    return pd.DataFrame(recs, index=idx)


def check(case, rec):
    name, w = case["metric"], case["weights"]
    R, S = case["anchors"], case["comparisons"]
    cls, chains, loops, accepted = CLASSES[name]
    w = {k: v for k, v in w.items() if k in accepted}
    nva = len({r["va"] % len(pool("A")) for r in R + S})
    nvb = len({r["vb"] % len(pool("B")) for r in R + S})
    asym = (w.get("alpha", 1) != w.get("beta", 1)) or (w.get("cdr1", 1) != w.get("cdr2", 1)) or (w.get("ins", 1) != w.get("del", 1))
    cl = [name, case["index"], "asym_weights" if asym else "sym_weights"]
    rec.note(case, nva >= 2 and nvb >= 2 and case["index"] != "default" and asym, cl)
    only = chains if (loops == ["3"] and case.get("drop_other_chain")) else ("A", "B")
    dfR = frame(R, case["index"], case.get("extra", True), only)
    dfS = frame(S, case.get("index2", "default"), case.get("extra", True), only)
    bR, bS = dfR.copy(deep=True), dfS.copy(deep=True)
    m = make_metric(name, w)
    # other metric objects (other classes / other weights) are constructed BEFORE m is used: metric objects must not share state
    others = [make_metric(n2, {"ins": 2, "del": 3, "sub": 4, "alpha": 5, "beta": 6, "cdr1": 7, "cdr2": 8, "cdr3": 9}) for n2 in ("Cdr", name)]
    got = np.asarray(call("cdist", m.calc_cdist_matrix, dfR, dfS))
    if got.shape != (len(R), len(S)):
        raise Violation("tcr-cdist-shape", f"{name}: shape {got.shape}")
    want = np.array([[oracle(name, w, r, s) for s in S] for r in R], dtype=float)
    if not np.array_equal(got.astype(float), want):
        i, j = np.argwhere(got.astype(float) != want)[0]
        raise Violation("tcr-cdist-value", f"{name} weights={w}: [{i},{j}] = {got[i, j]!r}, weighted sum = {want[i, j]} "
                                           f"(anchor={loops_of(R[i])}, comparison={loops_of(S[j])})")
    wo = {"ins": 2, "del": 3, "sub": 4, "alpha": 5, "beta": 6, "cdr1": 7, "cdr2": 8, "cdr3": 9}
    go = np.asarray(call("cdist", others[1].calc_cdist_matrix, dfR, dfS)).astype(float)
    wanto = np.array([[oracle(name, {k_: v_ for k_, v_ in wo.items() if k_ in accepted}, r, s_) for s_ in S] for r in R], dtype=float)
    if not np.array_equal(go, wanto):
        raise Violation("tcr-metric-objects-share-state", f"{name}: a second metric object with weights {wo}, constructed earlier, gives wrong values after another object was used")
    # pdist = condensed upper triangle of the self cdist
    v = np.asarray(call("pdist", m.calc_pdist_vector, dfR))
    n = len(R)
    if v.shape != (n * (n - 1) // 2,):
        raise Violation("tcr-pdist-length", f"{name}: {v.shape} for n={n}")
    for i in range(n):
        for j in range(i + 1, n):
            if float(v[O.condensed_index(n, i, j)]) != oracle(name, w, R[i], R[j]):
                raise Violation("tcr-pdist-layout", f"{name} weights={w}: condensed entry for (i={i}, j={j}) = {v[O.condensed_index(n, i, j)]!r}, "
                                                    f"expected {oracle(name, w, R[i], R[j])}")
    # the same table object as anchors AND comparisons: the full square matrix, both triangles (d(i,j) != d(j,i) when
    # insertion and deletion weights differ), and once more against a copy
    for tag, other in (("same-object", dfR), ("copy", dfR.copy(deep=True))):
        gs = np.asarray(call("cdist", m.calc_cdist_matrix, dfR, other)).astype(float)
        wants = np.array([[oracle(name, w, r, s) for s in R] for r in R], dtype=float)
        if gs.shape != wants.shape or not np.array_equal(gs, wants):
            bad = "shape" if gs.shape != wants.shape else tuple(int(x) for x in np.argwhere(gs != wants)[0])
            raise Violation("tcr-self-cdist", f"{name} weights={w}: cdist of a table with itself ({tag}) differs from the weighted sum at {bad}")
    # row permutation / relabelling
    perm = list(range(n))[::-1]
    dfP = dfR.iloc[perm]
    gp = np.asarray(call("cdist", m.calc_cdist_matrix, dfP, dfS)).astype(float)
    if not np.array_equal(gp, want[perm, :]):
        raise Violation("tcr-row-order", f"{name}: permuting the anchor rows does not permute the matrix")
    dfL = dfR.copy()
    dfL.index = [f"x{i}" for i in range(n)]
    gl = np.asarray(call("cdist", m.calc_cdist_matrix, dfL, dfS)).astype(float)
    if not np.array_equal(gl, want):
        raise Violation("tcr-index-dependence", f"{name}: relabelling the index changes the result")
    # the caller changes V alleles in place (same table object, same shape) and asks the same metric object again
    if len(R) >= 2 and only == ("A", "B"):
        R2 = [dict(r) for r in R]
        R2[0]["va"], R2[1]["va"] = R[1]["va"], R[0]["va"]
        R2[0]["vb"], R2[-1]["vb"] = R[-1]["vb"], R[0]["vb"]
        new = frame(R2, case["index"], case.get("extra", True), only)
        call("cdist", m.calc_cdist_matrix, dfR, dfS)          # the call immediately before the edit sees the old alleles
        for col in ("TRAV", "TRBV"):
            dfR[col] = new[col].to_numpy()
        g2 = np.asarray(call("cdist", m.calc_cdist_matrix, dfR, dfS)).astype(float)
        want2 = np.array([[oracle(name, w, r, s_) for s_ in S] for r in R2], dtype=float)
        if not np.array_equal(g2, want2):
            raise Violation("tcr-stale-after-inplace-edit", f"{name}: after the V genes of the anchor table were changed in place the metric still uses the old loops")
        new0 = frame(R, case["index"], case.get("extra", True), only)
        for col in ("TRAV", "TRBV"):
            dfR[col] = new0[col].to_numpy()
        bR = dfR.copy(deep=True)
    # additivity
    if name in ("Cdr3", "Cdr") and only == ("A", "B"):
        an, bn = ("AlphaCdr3", "BetaCdr3") if name == "Cdr3" else ("AlphaCdr", "BetaCdr")
        inner = {k: v_ for k, v_ in w.items() if k not in ("alpha", "beta")}
        ga = np.asarray(call("cdist", make_metric(an, inner).calc_cdist_matrix, dfR, dfS)).astype(float)
        gb = np.asarray(call("cdist", make_metric(bn, inner).calc_cdist_matrix, dfR, dfS)).astype(float)
        if not np.array_equal(got.astype(float), w.get("alpha", 1) * ga + w.get("beta", 1) * gb):
            raise Violation("tcr-additivity", f"{name} != alpha_weight*{an} + beta_weight*{bn} (weights={w})")
    if not (bR.equals(dfR) and list(bR.columns) == list(dfR.columns) and bR.index.equals(dfR.index)):
        raise Violation("tcr-mutates-input", f"{name}: anchors table changed (columns now {list(dfR.columns)})")
    if not (bS.equals(dfS) and list(bS.columns) == list(dfS.columns)):
        raise Violation("tcr-mutates-input", f"{name}: comparisons table changed (columns now {list(dfS.columns)})")


BAD_INPUTS = {
    "list_of_str": lambda: ["CASSF", "CASF"],
    "frame_no_tcr_column": lambda: pd.DataFrame({"x": [1, 2], "Epitope": ["A", "B"]}),
    "string": lambda: "CASSF",
    "none": lambda: None,
    "ndarray": lambda: np.array(["CASSF"]),
    "series": lambda: pd.Series(["CASSF"], name="CDR3B"),
    "dict": lambda: {"CDR3B": ["CASSF"]},
    "empty_frame_no_columns": lambda: pd.DataFrame(),
}


def check_reject(case, rec):
    rec.note(case, True, [case["metric"], case["bad"], case["where"]])
    m = make_metric(case["metric"], {})
    good = frame([{"va": 0, "vb": 0, "a": "CAVF", "b": "CASSF"}, {"va": 1, "vb": 2, "a": "CAF", "b": "CASF"}], "default")
    bad = BAD_INPUTS[case["bad"]]()
    if case.get("empty_good"):
        good = good.iloc[:0]          # a valid TCR table that happens to have no rows
    args = {"anchors": (bad, good), "comparisons": (good, bad), "pdist": (bad,)}[case["where"]]
    f = m.calc_pdist_vector if case["where"] == "pdist" else m.calc_cdist_matrix
    try:
        r = f(*args)
    except ValueError:
        return
    except Exception as e:  # noqa: BLE001
        raise Violation("tcr-reject-wrong-error", f"{case['metric']} {case['where']}={case['bad']}: raised {type(e).__name__} instead of ValueError: {e}")
    raise Violation("tcr-not-rejected", f"{case['metric']} {case['where']}={case['bad']}: returned {str(r)[:100]!r}")


def enum_reject(tier):
    for mname in CLASSES:
        for b in BAD_INPUTS:
            for where in ("anchors", "comparisons", "pdist"):
                yield {"metric": mname, "bad": b, "where": where}
                if where != "pdist":
                    yield {"metric": mname, "bad": b, "where": where, "empty_good": True}


@st.composite
def rows_strategy(draw, n, na, nb):
    va_pool = draw(st.lists(st.integers(0, na - 1), min_size=1, max_size=4))
    vb_pool = draw(st.lists(st.integers(0, nb - 1), min_size=1, max_size=4))
    fa = draw(G.clonal_family(alpha=G.AA, max_size=n, min_size=n, founder_len=(0, 10), cdr3_like=draw(st.booleans())))
    fb = draw(G.clonal_family(alpha=G.AA, max_size=n, min_size=n, founder_len=(0, 10), cdr3_like=draw(st.booleans())))
    return [{"va": draw(st.sampled_from(va_pool)), "vb": draw(st.sampled_from(vb_pool)), "a": fa[i], "b": fb[i]} for i in range(n)]


@st.composite
def metric_case(draw, tier="quick"):
    na, nb = len(pool("A")), len(pool("B"))
    name = draw(st.sampled_from(sorted(CLASSES)))
    wmode = draw(st.sampled_from(["unit", "distinct", "random"]))
    keys = ["ins", "del", "sub", "alpha", "beta", "cdr1", "cdr2", "cdr3"]
    if wmode == "unit":
        w = {}
    elif wmode == "distinct":
        vals = draw(st.permutations([1, 2, 3, 4, 5, 6, 7, 9]))
        w = dict(zip(keys, vals))
    else:
        w = {k: draw(st.integers(1, 9)) for k in keys if draw(st.booleans())}
    R = draw(rows_strategy(draw(st.integers(1, 8)), na, nb))
    S = draw(rows_strategy(draw(st.integers(1, 6)), na, nb))
    if draw(st.booleans()):
        S = S + R[:2]
    if draw(st.integers(0, 3)) == 0:
        # same alleles, same concatenated CDR3 text, different split between the chains
        r0 = dict(R[0])
        r0["a"], r0["b"] = "CAVKASGSRLT", "CASSDRAQPQHF"
        r1 = dict(r0)
        r1["a"], r1["b"] = "CAVKASGSR", "LTCASSDRAQPQHF"
        R = R + [r0, r1]
    return {"metric": name, "weights": w, "anchors": R, "comparisons": S,
            "index": draw(st.sampled_from(["default", "perm", "str", "dup", "shifted"])),
            "index2": draw(st.sampled_from(["default", "str", "dup"])), "extra": draw(st.booleans()),
            "drop_other_chain": draw(st.booleans())}


SUBS = [
    Sub("weighted_sum", check, strategy=lambda t: metric_case(t), budget=(2000, 20000)),
    Sub("rejection", check_reject, enum=enum_reject),
]
