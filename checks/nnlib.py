"""Shared pieces for the neighbour-search properties (C03, C04, C07, C10, C11, C14)."""
from hypothesis import strategies as st

from vlib import boot
from vlib.common import G

pyrepseq = boot.import_pyrepseq()
nn = pyrepseq.nn


def apply_edits(s, edits, alpha):
    """Deterministically apply (kind, pos, letter) edit specs to s."""
    for kind, pos, li in edits:
        n = len(s)
        c = alpha[li % len(alpha)]
        if kind == 0 and n:      # substitution
            p = pos % n
            s = s[:p] + c + s[p + 1:]
        elif kind == 1:          # insertion
            p = pos % (n + 1)
            s = s[:p] + c + s[p:]
        elif kind == 2 and n:    # deletion
            p = pos % n
            s = s[:p] + s[p + 1:]
    return s


edit_spec = st.tuples(st.integers(0, 2), st.integers(0, 40), st.integers(0, 19))
sub_spec = st.tuples(st.just(0), st.integers(0, 40), st.integers(0, 19))


@st.composite
def related_queries(draw, refs, alpha, max_size=12, max_edits=3, hamming=False, min_size=1):
    """Query list built from the reference list by 0-3 edits, plus unrelated ones."""
    spec = sub_spec if hamming else edit_spec
    picks = draw(st.lists(st.tuples(st.integers(0, 10 ** 6), st.lists(spec, max_size=max_edits)),
                          min_size=min_size, max_size=max_size))
    out = []
    for idx, edits in picks:
        out.append(apply_edits(refs[idx % len(refs)], edits, alpha))
    return out


def hashable_ok(seqs, k, maxlen=8):
    """hash_based / LookupDB enumerate the whole edit ball: keep it tractable."""
    m = max((len(s) for s in seqs), default=0)
    if k == 1:
        return m <= 40
    if k == 2:
        return m <= maxlen
    return m <= 3
