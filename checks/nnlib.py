"""Shared pieces for the neighbour-search properties (C03, C04, C07, C10, C11, C14)."""
from hypothesis import strategies as st

from vlib import boot
from vlib.common import G

pyrepseq = boot.import_pyrepseq()
nn = pyrepseq.nn


def apply_edits(s, edits, alpha):
    """Deterministically apply (kind, pos, letter) edit specs to s."""
    for kind, pos, li in edits:
        n = len(s)
        c = alpha[li % len(alpha)]
        if kind == 0 and n:      # substitution
            p = pos % n
            s = s[:p] + c + s[p + 1:]
        elif kind == 1:          # insertion
            p = pos % (n + 1)
            s = s[:p] + c + s[p:]
        elif kind == 2 and n:    # deletion
            p = pos % n
            s = s[:p] + s[p + 1:]
    return s


edit_spec = st.tuples(st.integers(0, 2), st.integers(0, 40), st.integers(0, 19))
sub_spec = st.tuples(st.just(0), st.integers(0, 40), st.integers(0, 19))


@st.composite
def related_queries(draw, refs, alpha, max_size=12, max_edits=3, hamming=False, min_size=1):
    """Query list built from the reference list by 0-3 edits, plus unrelated ones."""
    spec = sub_spec if hamming else edit_spec
    picks = draw(st.lists(st.tuples(st.integers(0, 10 ** 6), st.lists(spec, max_size=max_edits)),
                          min_size=min_size, max_size=max_size))
    out = []
    for idx, edits in picks:
        out.append(apply_edits(refs[idx % len(refs)], edits, alpha))
    return out


def hashable_ok(seqs, k, maxlen=8):
    """hash_based / LookupDB enumerate the whole edit ball: keep it tractable."""
    m = max((len(s) for s in seqs), default=0)
    if k == 1:
        return m <= 40
    if k == 2:
        return m <= maxlen
    return m <= 3


# ---------------------------------------------------------------------------
# custom distances: exactly symmetric, d(x, x) = 0 (computed on the sorted pair
# so that argument order cannot change a float). Module-level so that they are
# inherited by forked pool workers.
# ---------------------------------------------------------------------------
from vlib import oracles as _O  # noqa: E402

_BLOCKS = {c: i // 4 for i, c in enumerate(G.AA)}


def _sorted(a, b):
    a, b = str(a), str(b)
    return (a, b) if a <= b else (b, a)


def cd_half(a, b):
    a, b = _sorted(a, b)
    return 0.5 * _O.lev(a, b)


def cd_double(a, b):
    a, b = _sorted(a, b)
    return 2 * _O.lev(a, b)


def cd_triple(a, b):
    a, b = _sorted(a, b)
    return 3 * _O.lev(a, b)


def cd_lenpen(a, b):
    a, b = _sorted(a, b)
    return _O.lev(a, b) + 1.5 * abs(len(a) - len(b))


def cd_discrete(a, b):
    return 0 if str(a) == str(b) else 1


def cd_blocks(a, b):
    """Substitution-cost matrix: 0.25 inside a block of 4 letters, 1.75 across, gap 2.5."""
    a, b = _sorted(a, b)

    def cost(x, y):
        if x == y:
            return 0.0
        return 0.25 if _BLOCKS.get(x, -1) == _BLOCKS.get(y, -2) else 1.75
    la, lb = len(a), len(b)
    prev = [j * 2.5 for j in range(lb + 1)]
    for i in range(1, la + 1):
        cur = [i * 2.5] + [0.0] * lb
        for j in range(1, lb + 1):
            cur[j] = min(prev[j - 1] + cost(a[i - 1], b[j - 1]), prev[j] + 2.5, cur[j - 1] + 2.5)
        prev = cur
    return prev[lb]


def cd_int_blocks(a, b):
    return int(round(4 * cd_blocks(a, b)))


def make_scaled(c, lam=0.0):
    """Factory: all closures share one __module__/__qualname__ (as lambdas or parameterised distances in user code do),
    so anything that identifies a distance function by name instead of by identity confuses them."""
    def scaled(a, b):
        a, b = _sorted(a, b)
        return c * _O.lev(a, b) + lam * abs(len(a) - len(b))
    return scaled


def cd_tenths(a, b):
    """0.1 per edit, accumulated by repeated addition (0.1+0.1+0.1 = 0.30000000000000004 > 0.3): the radius test must be the
    exact comparison d <= max_custom_distance, not an approximate one."""
    a, b = _sorted(a, b)
    t = 0.0
    for _ in range(_O.lev(a, b)):
        t += 0.1
    return t


CUSTOM = {"tenths": cd_tenths, "half": make_scaled(0.5), "double": make_scaled(2), "triple": make_scaled(3), "lenpen": make_scaled(1, 1.5),
          "one_and_half": make_scaled(1.5), "unit": make_scaled(1),
          "discrete": cd_discrete, "blocks": cd_blocks, "int_blocks": cd_int_blocks}


def custom_neighbours_self(seqs, k, name, maxc):
    f = CUSTOM[name]
    out = []
    for i in range(len(seqs)):
        for j in range(len(seqs)):
            if i == j:
                continue
            if abs(len(seqs[i]) - len(seqs[j])) > k:
                continue
            if _O.lev(seqs[i], seqs[j]) <= k:
                c = f(seqs[i], seqs[j])
                if c <= maxc:
                    out.append((i, j, c))
    return out


def custom_neighbours_cross(queries, refs, k, name, maxc):
    f = CUSTOM[name]
    out = []
    for q, a in enumerate(queries):
        for r, b in enumerate(refs):
            if abs(len(a) - len(b)) > k:
                continue
            if _O.lev(a, b) <= k:
                c = f(a, b)
                if c <= maxc:
                    out.append((q, r, c))
    return out
