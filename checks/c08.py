"""C08 — string metrics return true (weighted) edit distances in SciPy layout."""
import functools

import numpy as np
import pandas as pd
import scipy.cluster.hierarchy as hc
from scipy.spatial.distance import squareform
from hypothesis import strategies as st

from vlib import boot
from vlib.common import Sub, Violation, call, O, G

pyrepseq = boot.import_pyrepseq()
from pyrepseq.metric import Levenshtein, WeightedLevenshtein  # noqa: E402

PROPERTY = "C08"
QUICK_SCALE = 2
RULE = ("string collections of 0-12 strings, lengths 0-60 over arbitrary alphabets (Unicode included) plus up to 3 long strings "
        "(200-400) derived from one another by a handful of edits and homopolymer pairs A*n / C*n; weight triples in 1..30 incl. "
        "ins != del and sub > ins+del, containers list / tuple / ndarray / Series. Oracle: own (weighted) Wagner-Fischer per "
        "cell, exact equality; calc_pdist_vector(X)[m*i + j - (i+2)(i+1)/2] == d(X[i] -> X[j]) for all i<j, length m(m-1)/2, "
        "accepted by squareform and linkage; functional pdist/cdist: metric callables (own lev, an asymmetric length function, "
        "a callable taking keyword arguments scale=/offset= to test forwarding) with explicit dtypes. Non-trivial: m >= 3 with "
        "pairwise-distinct distances, or asymmetric weights with an indel pair, or a string longer than 255."
        " Keyword forwarding through callables of several shapes (**options, keyword-only, callable object, undecorated wrapper, functools.partial, lambda).")
ASSUMPTIONS = ["the functional helpers' default uint8 dtype is only used when every value is <= 255 (numpy raises OverflowError "
               "above that; documented, not asserted against)",
               "weighted distances stay below 2^24 so float32 results are exact"]


def selftest():
    O.selftest()


def mat(seqs, how):
    return G.materialise(seqs, how)


def check_metric(case, rec):
    A, B = case["A"], case["B"]
    w = case.get("weights")
    if w is None:
        metric, d = Levenshtein(), O.lev
    else:
        metric = WeightedLevenshtein(*w)
        d = lambda a, b: O.wlev(a, b, *w)  # noqa: E731
    m = len(A)
    dist_self = [d(A[i], A[j]) for i in range(m) for j in range(i + 1, m)]
    cl = ["weighted" if w else "unit", case["container"]]
    nt = (m >= 3 and len(set(dist_self)) == len(dist_self))
    if w and w[0] != w[1] and any(len(A[i]) != len(A[j]) for i in range(m) for j in range(i + 1, m)):
        cl.append("asymmetric_indel")
        nt = True
    if any(len(s) > 255 for s in A + B):
        cl.append("long_string")
        nt = True
    rec.note(case, nt, cl)
    cont = case["container"]
    if A and B:
        got = np.asarray(call("cdist", metric.calc_cdist_matrix, mat(A, cont), mat(B, cont)))
        if got.shape != (len(A), len(B)):
            raise Violation("cdist-shape", f"shape {got.shape} != {(len(A), len(B))}")
        for i, a in enumerate(A):
            for j, b in enumerate(B):
                want = d(a, b)
                if float(got[i, j]) != want:
                    raise Violation("cdist-value", f"weights={w}: d({a[:30]!r}.. -> {b[:30]!r}..)[{i},{j}] = {got[i, j]!r}, true {want}")
    if m >= 1 and case.get("same_object"):
        X = mat(A, cont)
        gs = np.asarray(call("cdist", metric.calc_cdist_matrix, X, X))
        for i, a in enumerate(A):
            for j, b in enumerate(A):
                if float(gs[i, j]) != d(a, b):
                    raise Violation("cdist-same-object", f"weights={w}: cdist(X, X)[{i},{j}] = {gs[i, j]!r}, true {d(a, b)}")
    if m >= 1:
        v = np.asarray(call("pdist", metric.calc_pdist_vector, mat(A, cont)))
        if v.shape != (m * (m - 1) // 2,):
            raise Violation("pdist-length", f"m={m}: shape {v.shape}")
        for i in range(m):
            for j in range(i + 1, m):
                want = d(A[i], A[j])
                k = O.condensed_index(m, i, j)
                if float(v[k]) != want:
                    raise Violation("pdist-layout", f"weights={w}: entry {k} for (i={i}, j={j}) = {v[k]!r}, d(X[i]->X[j]) = {want}")
        if m >= 2:
            sq = call("squareform", squareform, v)
            if sq.shape != (m, m):
                raise Violation("pdist-squareform", f"squareform gives {sq.shape}")
            Z = call("linkage", hc.linkage, v.astype(float), method="single")
            if Z.shape != (m - 1, 4):
                raise Violation("pdist-linkage", f"linkage gives {Z.shape}")


def check_large_pdist(case, rec):
    """calc_pdist_vector on m around 2^k: strings come from a small pool, so the true distances are memoised."""
    m = case["m"]
    pool = case["pool"]
    w = case.get("weights")
    X = [pool[(i * 5 + i // 7) % len(pool)] for i in range(m)]
    metric = Levenshtein() if w is None else WeightedLevenshtein(*w)
    memo = {}

    def d(a, b):
        if (a, b) not in memo:
            memo[(a, b)] = O.lev(a, b) if w is None else O.wlev(a, b, *w)
        return memo[(a, b)]
    rec.note(case, True, [f"m={m}"])
    v = np.asarray(call("pdist-large", metric.calc_pdist_vector, list(X)))
    if v.shape != (m * (m - 1) // 2,):
        raise Violation("pdist-length", f"m={m}: shape {v.shape}, expected {(m * (m - 1) // 2,)}")
    vl = v.tolist()
    k = 0
    for i in range(m - 1):
        xi = X[i]
        for j in range(i + 1, m):
            if vl[k] != d(xi, X[j]):
                raise Violation("pdist-layout", f"m={m} weights={w}: entry {k} for (i={i}, j={j}) = {vl[k]!r}, d(X[i]->X[j]) = {d(xi, X[j])}")
            k += 1
    call("squareform", squareform, v)


def enum_large_pdist(tier):
    pool = ["A", "AC", "CA", "AAC", "ACC", "CCA", "AACC", "C", "CCCC", "", "WAC", "ACW"]
    for m in ([255, 256, 257, 1023, 1024, 1025] if tier == "quick" else [511, 512, 513, 1023, 1024, 1025, 2047, 2048, 2049]):
        yield {"m": m, "pool": pool}
        if m % 2:
            yield {"m": m, "pool": pool, "weights": [1, 2, 3]}


# functional helpers ---------------------------------------------------------
def f_lev(a, b):
    return O.lev(a, b)


def f_asym(a, b):
    return len(a) + 2 * len(b)


def f_kw(a, b, scale=1, offset=0):
    return scale * O.lev(a, b) + offset


def f_real(a, b):
    return 0.25 * O.lev(a, b) + 0.125 * abs(len(a) - len(b))


def f_mixed(a, b):
    """int 0 for identical strings, non-integer floats otherwise (as metrics with an early `return 0` do)"""
    if a == b:
        return 0
    return 0.5 * O.lev(a, b) + 0.25


def f_kw_cap(a, b, cap=2, offset=0):
    """an option whose own default is not None and for which None is a meaningful explicit value (no cap)"""
    d = O.lev(a, b)
    return (d if cap is None else min(d, cap)) + offset


def f_kw_star(a, b, **options):
    """collects the forwarded options in a catch-all parameter"""
    return options.get("scale", 1) * O.lev(a, b) + options.get("offset", 0)


def f_kw_only(a, b, *, scale=1, offset=0):
    return scale * O.lev(a, b) + offset


class KwObject:
    """a callable object (a configured scorer) taking the options through **kw"""

    def __call__(self, a, b, **kw):
        return f_kw(a, b, **kw)


def _decorated(fn):
    def wrapper(*args, **kwargs):          # a decorator closure without functools.wraps
        return fn(*args, **kwargs)
    return wrapper


FUNCS = {"lev": f_lev, "asym": f_asym, "kw": f_kw, "real": f_real, "mixed": f_mixed, "default": None,
         "kw_star": f_kw_star, "kw_only": f_kw_only, "kw_object": KwObject(), "kw_decorated": _decorated(f_kw),
         "kw_partial": functools.partial(f_kw, scale=3), "kw_lambda": lambda a, b, **kw: f_kw(a, b, **kw), "kw_cap": f_kw_cap}
KW_FUNCS = ["kw", "kw_star", "kw_only", "kw_object", "kw_decorated", "kw_partial", "kw_lambda", "kw_cap"]


def check_functional(case, rec):
    A, B, fname = case["A"], case["B"], case["func"]
    kw = dict(case.get("kwargs", {}))
    f = FUNCS[fname]
    if f is None and "weights" in kw:
        kw["weights"] = tuple(kw["weights"])
        ref = lambda a, b: O.wlev(a, b, *kw["weights"])  # noqa: E731 - the default metric must receive the forwarded weights
    else:
        ref = (lambda a, b: O.lev(a, b)) if f is None else (lambda a, b: f(a, b, **kw))
    m = len(A)
    rec.note(case, m >= 3 and (fname in ("asym", "real", "mixed") or fname in KW_FUNCS), [fname, case["dtype"], "kwargs" if kw else "no_kwargs"])
    dtype = {"uint8": np.uint8, "int64": np.int64, "float64": np.float64, "default": None}[case["dtype"]]
    args = {}
    if f is not None:
        args["metric"] = f
    if dtype is not None:
        args["dtype"] = dtype
    args.update(kw)
    vals = [ref(A[i], A[j]) for i in range(m) for j in range(i + 1, m)] + [ref(a, b) for a in A for b in B]
    if dtype in (None, np.uint8) and any(v > 255 or v != int(v) for v in vals):
        args["dtype"] = np.float64
    cont = case["container"]
    v = np.asarray(call("pdist-func", pyrepseq.pdist, mat(A, cont), **args))
    if v.shape != (m * (m - 1) // 2,):
        raise Violation("fpdist-length", f"m={m}: shape {v.shape}")
    for i in range(m):
        for j in range(i + 1, m):
            want = ref(A[i], A[j])
            k = O.condensed_index(m, i, j)
            if float(v[k]) != float(want):
                raise Violation("fpdist-layout", f"func={fname} kwargs={kw}: entry {k} for (i={i}, j={j}) = {v[k]!r}, metric(X[i], X[j]) = {want}")
    if case.get("same_object") and A:
        # cdist(X, X) with the identical object: still the full rectangle metric(X[i], X[j]), diagonal and both triangles
        X = mat(A, cont)
        cs = np.asarray(call("cdist-func", pyrepseq.cdist, X, X, **args))
        for i, a in enumerate(A):
            for j, b in enumerate(A):
                if float(cs[i, j]) != float(ref(a, b)):
                    raise Violation("fcdist-same-object", f"func={fname} kwargs={kw}: cdist(X, X)[{i},{j}] = {cs[i, j]!r}, metric(X[i], X[j]) = {ref(a, b)}")
    c = np.asarray(call("cdist-func", pyrepseq.cdist, mat(A, cont), mat(B, cont), **args))
    if c.shape != (len(A), len(B)):
        raise Violation("fcdist-shape", f"shape {c.shape} != {(len(A), len(B))}")
    for i, a in enumerate(A):
        for j, b in enumerate(B):
            if float(c[i, j]) != float(ref(a, b)):
                raise Violation("fcdist-value", f"func={fname} kwargs={kw}: [{i},{j}] = {c[i, j]!r}, metric(A[i], B[j]) = {ref(a, b)}")


# strategies -------------------------------------------------------------------
@st.composite
def string_list(draw, max_n=12, long_ok=True, min_n=0):
    alpha = draw(st.sampled_from(["A", "AC", "ACD", G.AA, G.UNICODE_POOL, "ab cé"]))
    n = draw(st.integers(min_n, max_n))
    out = []
    if n:
        fam = draw(G.clonal_family(alpha=alpha, max_size=n, min_size=n, founder_len=(0, 20), max_edits=4))
        out = list(fam)
    if long_ok and draw(st.integers(0, 3)) == 0:
        L = draw(st.integers(200, 400))
        kind = draw(st.sampled_from(["homopolymer", "edited"]))
        if kind == "homopolymer":
            out += [alpha[0] * L, alpha[-1] * L]
        else:
            base = "".join(draw(st.lists(st.sampled_from(alpha), min_size=L, max_size=L)))
            e = base
            for _ in range(draw(st.integers(1, 5))):
                e = G._edit(draw, e, list(alpha))
            out += [base, e]
    return out


@st.composite
def metric_case(draw, tier="quick"):
    A = draw(string_list())
    B = draw(string_list(max_n=6))
    case = {"A": A, "B": B, "container": draw(st.sampled_from(["list", "tuple", "ndarray", "series_str", "series_perm"]))}
    if draw(st.booleans()):
        case["weights"] = draw(st.sampled_from([[1, 1, 1], [1, 2, 3], [2, 1, 3], [1, 1, 5], [3, 3, 2], [30, 1, 7], [1, 30, 30], [2, 2, 2], [5, 7, 11]])
                               | st.tuples(st.integers(1, 30), st.integers(1, 30), st.integers(1, 30)).map(list))
    if case["container"] == "tuple" and len(A) == 2:
        case["container"] = "list"
    case["same_object"] = draw(st.booleans())
    return case


@st.composite
def functional_case(draw, tier="quick"):
    A = draw(string_list(max_n=8, long_ok=False))
    B = draw(string_list(max_n=5, long_ok=False))
    fname = draw(st.sampled_from(["default", "lev", "asym", "kw", "real", "mixed"] + KW_FUNCS))
    if fname == "mixed" and A:
        B = [A[0]] + list(B)           # the first pair evaluated is a pair of identical strings
    case = {"A": A, "B": B, "func": fname, "dtype": draw(st.sampled_from(["default", "uint8", "int64", "float64"])),
            "container": draw(st.sampled_from(["list", "tuple", "ndarray", "series_str"]))}
    if fname in ("real", "mixed"):
        case["dtype"] = "float64"
    if fname == "kw_cap":
        case["kwargs"] = {"cap": draw(st.sampled_from([None, None, 0, 1, 3])), "offset": draw(st.sampled_from([0, 0, 2]))}
        if draw(st.integers(0, 3)) == 0:
            del case["kwargs"]["offset"]
    elif fname in KW_FUNCS and draw(st.integers(0, 3)):
        case["kwargs"] = {"scale": draw(st.integers(1, 5)), "offset": draw(st.integers(0, 9))}
        if draw(st.integers(0, 3)) == 0:
            del case["kwargs"]["scale" if draw(st.booleans()) else "offset"]
    if fname == "default" and draw(st.booleans()):
        case["kwargs"] = {"weights": draw(st.sampled_from([[1, 1, 2], [1, 2, 1], [2, 1, 3]]))}
    case["same_object"] = draw(st.booleans())
    return case


SUBS = [
    Sub("large_pdist", check_large_pdist, enum=enum_large_pdist),
    Sub("metric_objects", check_metric, strategy=lambda t: metric_case(t), budget=(2500, 25000)),
    Sub("functional", check_functional, strategy=lambda t: functional_case(t), budget=(2000, 20000)),
]
