"""C10 — results do not depend on output format or input container; invalid arguments are rejected."""
import numpy as np
import scipy.sparse
from hypothesis import strategies as st

from vlib.common import Sub, Violation, call, must_raise, trip, same_multiset, O, G
from checks.nnlib import pyrepseq, nn, related_queries, CUSTOM, custom_neighbours_self, custom_neighbours_cross

PROPERTY = "C10"
QUICK_SCALE = 3
RULE = ("search cases (clonal-family repertoires, optional second collection of a different size, Levenshtein or Hamming mode, "
        "k=1..2, or a callable custom distance with non-integer values) x output_type in {triplets, coo_matrix, ndarray} x container in {list, tuple, ndarray, Series with default / "
        "shifted / permuted-integer / string / duplicated index} (independently for both collections) x engine in "
        "{nearest_neighbor, symdel, symdel+seqs2, nearest_neighbor+seqs2, hash_based, kdtree, SymdelDB.lookup, LookupDB.lookup}. "
        "Oracle: brute-force triplets; matrix forms must have shape (len(seqs), len(seqs2)) (square without seqs2), d at [r, q] "
        "and 0 elsewhere, no repeated COO coordinate. Invalid-argument classes (empty input, non-string elements, bad "
        "max_edits / n_cpu / output_type) on the four public engines must raise. Non-trivial: a Series whose index is not "
        "0..n-1, or a matrix output with a non-zero off-diagonal entry and len(seqs) != len(seqs2).")
ASSUMPTIONS = ["rejection is asserted for the four documented public entry points, not for the database classes",
               "any exception type counts as rejection (the code uses assert statements)"]

SELF = ["nearest_neighbor", "symdel", "hash_based", "kdtree"]
CROSS = ["symdel2", "nn2", "symdeldb", "lookupdb"]
OUT = ["triplets", "coo_matrix", "ndarray"]


def selftest():
    O.selftest()


def run(case, seqs_c, seqs2_c):
    e, k, ot = case["engine"], case["k"], case["output_type"]
    cd = "hamming" if case.get("hamming") else (CUSTOM[case["custom"]] if case.get("custom") else None)
    if e in ("nearest_neighbor", "symdel", "hash_based", "kdtree"):
        f = getattr(pyrepseq, e)
        return f(seqs_c, max_edits=k, custom_distance=cd, output_type=ot)
    if e == "symdel2":
        return pyrepseq.symdel(seqs_c, max_edits=k, custom_distance=cd, output_type=ot, seqs2=seqs2_c)
    if e == "nn2":
        return pyrepseq.nearest_neighbor(seqs_c, max_edits=k, custom_distance=cd, output_type=ot, seqs2=seqs2_c)
    if e == "symdeldb":
        return nn.SymdelDB(seqs_c, k).lookup(seqs2_c, custom_distance=cd, output_type=ot)
    if e == "lookupdb":
        return nn.LookupDB(seqs_c).lookup(seqs2_c, max_edits=k, custom_distance=cd, output_type=ot)
    raise ValueError(e)


def check(case, rec):
    seqs, seqs2 = case["seqs"], case.get("seqs2")
    k = case["k"]
    dist = O.ham if case.get("hamming") else O.lev
    cross = case["engine"] in CROSS
    if cross:
        want = O.neighbours_cross(seqs2, seqs, k, dist) if not case.get("custom") else custom_neighbours_cross(seqs2, seqs, k, case["custom"], float("inf"))
        shape = (len(seqs), len(seqs2))
    else:
        want = O.neighbours_self(seqs, k, dist) if not case.get("custom") else custom_neighbours_self(seqs, k, case["custom"], float("inf"))
        shape = (len(seqs), len(seqs))
    want = [(a, b, int(d) if float(d) == int(d) else float(d)) for a, b, d in want]
    cont, cont2 = case["container"], case.get("container2", "list")
    cl = [case["engine"], case["output_type"], cont]
    odd_index = cont in ("series_shifted", "series_perm", "series_str", "series_dup") or \
        (cross and cont2 in ("series_shifted", "series_perm", "series_str", "series_dup"))
    matrix_nt = case["output_type"] != "triplets" and cross and len(seqs) != len(seqs2) and \
        any(d > 0 and q != r for q, r, d in want)
    if case.get("custom"):
        cl.append("custom_distance")
        if any(float(d) != int(d) for _, _, d in want):
            cl.append("non_integer_values")
    if odd_index:
        cl.append("non_default_index")
    if matrix_nt:
        cl.append("rect_matrix_offdiag")
    rec.note(case, odd_index or matrix_nt, cl)
    sc = G.materialise(seqs, cont, case.get("perm", 0))
    sc2 = G.materialise(seqs2, cont2, case.get("perm", 0)) if cross else None
    if cross and case.get("alias") and list(seqs) == list(seqs2):
        sc2 = sc          # one container object passed as both collections: still a two-collection call (rectangle incl. diagonal)
    got = call("search", run, case, sc, sc2)
    ctx = f"engine={case['engine']} container={cont}/{cont2} output={case['output_type']} k={k}"
    if case["output_type"] == "triplets":
        same_multiset("container-dependence", trip(got), want, ctx)
        return
    dense_want = np.zeros(shape)
    for q, r, d in want:
        dense_want[r, q] = d
    if case["output_type"] == "coo_matrix":
        if not scipy.sparse.issparse(got):
            raise Violation("matrix-type", f"{ctx}: coo_matrix output is {type(got).__name__}")
        coo = got.tocoo()
        coords = list(zip(coo.row.tolist(), coo.col.tolist()))
        if len(coords) != len(set(coords)):
            raise Violation("matrix-duplicate-entry", f"{ctx}: repeated coordinates in the COO matrix")
        stored = sorted((int(c), int(r), float(v)) for r, c, v in zip(coo.row, coo.col, coo.data))
        same_multiset("matrix-entries", [(a, b, int(v) if v == int(v) else v) for a, b, v in stored], want, ctx)
        dense = got.toarray()
    else:
        if not isinstance(got, np.ndarray):
            raise Violation("matrix-type", f"{ctx}: ndarray output is {type(got).__name__}")
        dense = got
    if tuple(dense.shape) != shape:
        raise Violation("matrix-shape", f"{ctx}: shape {dense.shape} != {shape}")
    if not np.array_equal(np.asarray(dense, dtype=float), dense_want):
        bad = np.argwhere(np.asarray(dense, dtype=float) != dense_want)[:5].tolist()
        raise Violation("matrix-content", f"{ctx}: differs at [row, col] {bad}")


@st.composite
def search_case(draw, tier="quick"):
    engine = draw(st.sampled_from(SELF + CROSS))
    alpha = draw(st.sampled_from(["AC", "ACD", G.AA, G.AA]))
    k = draw(st.sampled_from([1, 1, 2]))
    hamming = draw(st.booleans()) and draw(st.booleans())
    small = engine in ("hash_based", "lookupdb") and k == 2
    seqs = draw(G.clonal_family(alpha=alpha, max_size=10 if small else 25,
                                founder_len=(2, 5) if small else (3, 10), max_edits=2))
    if small:
        seqs = [s[:6] for s in seqs]
    case = {"engine": engine, "k": k, "seqs": seqs, "output_type": draw(st.sampled_from(OUT)),
            "container": draw(st.sampled_from(G.CONTAINERS)), "perm": draw(st.integers(0, 50))}
    if hamming:
        case["hamming"] = True
    elif draw(st.integers(0, 3)) == 0:
        # a callable custom distance with non-integer values: the matrix forms must hold exactly these values
        case["custom"] = draw(st.sampled_from(["half", "one_and_half", "blocks", "lenpen"]))
    if engine in CROSS:
        q = draw(related_queries(seqs, alpha, max_size=8 if small else 20, max_edits=2, hamming=hamming))
        if draw(st.booleans()):
            q = list(seqs[: draw(st.integers(1, len(seqs)))]) + q
        if small:
            q = [s[:6] for s in q][:8]
        case["seqs2"] = q
        case["container2"] = draw(st.sampled_from(G.CONTAINERS))
        if draw(st.integers(0, 4)) == 0:
            case["seqs2"] = list(case["seqs"])
            case["alias"] = True
    return case


def check_matrix_vs_triplets(case, rec):
    """kdtree with max_returns reports each sequence's closest neighbours only (not a symmetric list; ties may fall
    either way), so the oracle for the matrix forms is the triplet output of the very same call."""
    seqs, k, m = case["seqs"], case["k"], case["max_returns"]
    cd = "hamming" if case.get("hamming") else None
    t = trip(call("kdtree", pyrepseq.kdtree, list(seqs), max_edits=k, max_returns=m, custom_distance=cd))
    tset = set((a, b) for a, b, _ in t)
    asym = any((b, a) not in tset for a, b in tset)
    rec.note(case, asym, ["asymmetric" if asym else "symmetric", f"max_returns={m}"])
    want = np.zeros((len(seqs), len(seqs)))
    for q, r, d in t:
        want[r, q] = d
    for ot in ("coo_matrix", "ndarray"):
        got = call("kdtree", pyrepseq.kdtree, list(seqs), max_edits=k, max_returns=m, custom_distance=cd, output_type=ot)
        if ot == "coo_matrix":
            coo = got.tocoo()
            coords = list(zip(coo.row.tolist(), coo.col.tolist()))
            if len(coords) != len(set(coords)):
                raise Violation("matrix-duplicate-entry", f"max_returns={m}: repeated coordinates in the COO matrix")
            if sorted((int(c), int(r)) for r, c in coords) != sorted(tset):
                raise Violation("matrix-entries", f"max_returns={m}: stored coordinates differ from the triplets of the same call")
            got = got.toarray()
        if not np.array_equal(np.asarray(got, dtype=float), want):
            bad = np.argwhere(np.asarray(got, dtype=float) != want)[:5].tolist()
            raise Violation("matrix-content", f"kdtree max_returns={m} output={ot}: differs from the triplets of the same call at {bad}")


@st.composite
def matrix_case(draw, tier="quick"):
    alpha = draw(st.sampled_from(["AC", "ACD", G.AA]))
    seqs = draw(G.clonal_family(alpha=alpha, max_size=25, founder_len=(3, 9), max_edits=2))
    case = {"seqs": seqs, "k": draw(st.sampled_from([1, 2])), "max_returns": draw(st.sampled_from([1, 1, 2, 3]))}
    if draw(st.integers(0, 3)) == 0:
        case["hamming"] = True
    return case


# ---------------------------------------------------------------------------
# invalid arguments
# ---------------------------------------------------------------------------
import pandas as pd  # noqa: E402

BAD_SEQS = {
    "empty_list": lambda: [],
    "empty_tuple": lambda: (),
    "empty_array": lambda: np.array([], dtype=str),
    "empty_series": lambda: pd.Series([], dtype=object),
    "int_element": lambda: ["CAAA", 1, "CAAD"],
    "none_element": lambda: ["CAAA", None],
    "float_element": lambda: [3.0, "CAAA"],
    "bytes_element": lambda: [b"CAAA", b"CAAD"],
    "nested_list": lambda: [["CAAA"], ["CAAD"]],
    "object_array_with_int": lambda: np.array(["CAAA", 7], dtype=object),
    "nan_in_series": lambda: pd.Series(["CAAA", np.nan, "CAAD"]),
}
BAD_ARGS = {
    "max_edits=0": dict(max_edits=0), "max_edits=-1": dict(max_edits=-1), "max_edits=1.5": dict(max_edits=1.5),
    "max_edits='1'": dict(max_edits="1"), "max_edits=None": dict(max_edits=None), "max_edits=2.0": dict(max_edits=2.0),
    "n_cpu=0": dict(n_cpu=0), "n_cpu=-2": dict(n_cpu=-2), "n_cpu=1.0": dict(n_cpu=1.0), "n_cpu=None": dict(n_cpu=None),
    "output_type=dense": dict(output_type="dense"), "output_type=None": dict(output_type=None),
    "output_type=Triplets": dict(output_type="Triplets"), "output_type=''": dict(output_type=""),
    "output_type=triplet": dict(output_type="triplet"), "output_type=matrix": dict(output_type="matrix"),
    "output_type=array": dict(output_type="array"), "output_type=coo": dict(output_type="coo"),
    "output_type=csr_matrix": dict(output_type="csr_matrix"), "output_type=0": dict(output_type=0),
}


def check_invalid(case, rec):
    rec.note(case, True, [case["engine"], case["bad"], case.get("mode", "default")])
    f0 = getattr(pyrepseq, case["engine"])
    mode = case.get("mode")
    f = (lambda *a, **k: f0(*a, custom_distance="hamming", **k)) if mode == "hamming" else f0
    good = case["seqs"]
    if case["bad"] in BAD_SEQS:
        must_raise(f"invalid:{case['bad']}", f, BAD_SEQS[case["bad"]]())
        if case["engine"] in ("symdel", "nearest_neighbor") and not case["bad"].startswith("empty"):
            must_raise(f"invalid-seqs2:{case['bad']}", f, list(good), seqs2=BAD_SEQS[case["bad"]]())
    else:
        must_raise(f"invalid:{case['bad']}", f, list(good), **BAD_ARGS[case["bad"]])


@st.composite
def invalid_case(draw, tier="quick"):
    seqs = draw(G.clonal_family(alpha=G.AA, max_size=8, founder_len=(3, 6), allow_empty=False))
    return {"engine": draw(st.sampled_from(SELF)), "bad": draw(st.sampled_from(sorted(BAD_SEQS) + sorted(BAD_ARGS))),
            "seqs": seqs}


def enum_invalid(tier):
    for e in SELF:
        for b in sorted(BAD_SEQS) + sorted(BAD_ARGS):
            yield {"engine": e, "bad": b, "seqs": ["CAAA", "CAAD", "CDDD"]}
            yield {"engine": e, "bad": b, "seqs": ["CAAA", "CAAD", "CDDD"], "mode": "hamming"}


SUBS = [
    Sub("formats_containers", check, strategy=lambda tier: search_case(tier), budget=(4000, 40000)),
    Sub("matrix_vs_triplets", check_matrix_vs_triplets, strategy=lambda tier: matrix_case(tier), budget=(600, 6000)),
    Sub("invalid_enum", check_invalid, enum=enum_invalid),
    Sub("invalid_random", check_invalid, strategy=lambda tier: invalid_case(tier), budget=(300, 2000)),
]
