"""C12 — one-edit neighbourhood generators and the set utilities built on them are exact."""
import itertools
from collections import Counter

import numpy as np
from hypothesis import strategies as st

from vlib import boot
from vlib.common import Sub, Violation, call, same_multiset, O, G

pyrepseq = boot.import_pyrepseq()
D = pyrepseq.distance

PROPERTY = "C12"
QUICK_SCALE = 3
RULE = ("exhaustive: every string of length 0..L over alphabets of 1, 2, 3, 4 letters for levenshtein_neighbors / "
        "hamming_neighbors (oracle universe = all strings of length 0..L+1), every subset of variable positions for length <= 4, "
        "next_nearest_neighbors for maxdistance 1..3 on short strings; random: amino-acid strings up to length 12 with runs "
        "(default 20-letter alphabet), reference sets built around the query at controlled Hamming distance 0..6 for "
        "nndist_hamming (maxdist 1..4), lists of unique sequences for the pair utilities. Oracle: Counter(list(gen(x))) == "
        "Counter({y : lev(x,y) == 1}) (each exactly once, nothing else) with own DP; Hamming analogue on permitted positions; "
        "next_nearest == {y : 0 < d(x,y) <= maxdistance}; find_neighbor_pairs = each unordered distance-1 pair once; "
        "find_neighbor_pairs_index = all ordered index pairs at distance 1; calculate_neighbor_numbers; isdist1; nndist_hamming == "
        "min(true nearest Hamming distance, maxdist). Non-trivial: x contains a run of >= 2 equal letters, or is empty, or the "
        "alphabet has one letter; for utilities: >= 1 true distance-1 pair."
        " One caller-owned set object is handed to find_neighbor_pairs and afterwards used as the reference of the other utilities.")
ASSUMPTIONS = ["pair utilities receive lists of unique sequences (their documented domain)",
               "nndist_hamming receives equal-length strings (documented: it does not check lengths)"]
EXHAUSTIVE = False  # exhaustive only within the stated length bounds (see per_sub)


def selftest():
    O.selftest()


def universe_dist1(x, alphabet):
    """All strings at Levenshtein distance exactly 1 from x over alphabet, by brute force over a superset."""
    cand = set()
    n = len(x)
    for i in range(n):
        cand.add(x[:i] + x[i + 1:])
        for a in alphabet:
            cand.add(x[:i] + a + x[i + 1:])
    for i in range(n + 1):
        for a in alphabet:
            cand.add(x[:i] + a + x[i:])
    return {y for y in cand if O.lev(x, y) == 1}


def check_lev_neighbors(case, rec):
    x, alpha = case["x"], case["alphabet"]
    rec.note(case, G.has_run(x) or x == "" or len(alpha) == 1, [f"alpha={len(alpha)}", f"len={len(x)}"])
    if case.get("default_alphabet"):
        got = list(call("levenshtein_neighbors", lambda: list(D.levenshtein_neighbors(x))))
    else:
        got = list(call("levenshtein_neighbors", lambda: list(D.levenshtein_neighbors(x, alpha))))
    want = universe_dist1(x, alpha)
    if case.get("full_universe"):
        uni = O.all_strings(alpha, len(x) + 1)
        want2 = {y for y in uni if O.lev(x, y) == 1}
        if want2 != want:
            raise RuntimeError("harness: candidate superset disagrees with the full universe")
    same_multiset("lev-neighbourhood", got, list(want), f"x={x!r} alphabet={alpha!r}")


def check_ham_neighbors(case, rec):
    x, alpha = case["x"], case["alphabet"]
    pos = case.get("positions")
    rec.note(case, G.has_run(x) or len(alpha) == 1 or pos is not None, [f"alpha={len(alpha)}", "positions" if pos is not None else "all"])
    if pos is None:
        got = list(call("hamming_neighbors", lambda: list(D.hamming_neighbors(x, alpha))))
        allowed = range(len(x))
    else:
        how = case.get("positions_as", "list")
        vp = {"list": lambda: list(pos), "tuple": lambda: tuple(pos), "iter": lambda: iter(list(pos)),
              "generator": lambda: (p for p in pos), "set": lambda: set(pos), "reversed": lambda: reversed(list(pos))}[how]
        got = list(call("hamming_neighbors", lambda: list(D.hamming_neighbors(x, alpha, variable_positions=vp()))))
        allowed = pos
    want = [x[:i] + a + x[i + 1:] for i in allowed for a in alpha if a != x[i]]
    same_multiset("ham-neighbourhood", got, want, f"x={x!r} alphabet={alpha!r} positions={pos}")
    for y in got:
        if len(y) != len(x) or O.ham(x, y) != 1:
            raise Violation("ham-neighbourhood-distance", f"{y!r} is not at Hamming distance 1 of {x!r}")


def check_next_nearest(case, rec):
    x, alpha, md, kind = case["x"], case["alphabet"], case["maxdistance"], case["kind"]
    rec.note(case, md >= 2, [kind, f"maxdistance={md}"])
    if kind == "lev":
        nb = lambda s: D.levenshtein_neighbors(s, alpha)  # noqa: E731
        uni = O.all_strings(alpha, len(x) + md)
        want = {y for y in uni if 0 < O.lev(x, y) <= md}
    else:
        nb = lambda s: D.hamming_neighbors(s, alpha)  # noqa: E731
        uni = ["".join(t) for t in itertools.product(alpha, repeat=len(x))]
        want = {y for y in uni if 0 < O.ham(x, y) <= md}
    got = call("next_nearest_neighbors", D.next_nearest_neighbors, x, nb, maxdistance=md)
    if not isinstance(got, (set, frozenset)):
        got = set(got)
    if got != want:
        raise Violation("next-nearest", f"x={x!r} alphabet={alpha!r} maxdistance={md} {kind}: missing={sorted(want - got)[:6]} extra={sorted(got - want)[:6]}")


def check_pair_utils(case, rec):
    seqs, kind, alpha = case["seqs"], case["kind"], case["alphabet"]
    assert len(set(seqs)) == len(seqs)
    if kind == "lev":
        nb = (lambda s: D.levenshtein_neighbors(s, alpha)) if alpha != G.AA else D.levenshtein_neighbors
        d = O.lev
    else:
        nb = (lambda s: D.hamming_neighbors(s, alpha)) if alpha != G.AA else D.hamming_neighbors
        d = O.ham
    truth = [(i, j) for i in range(len(seqs)) for j in range(len(seqs)) if i != j and d(seqs[i], seqs[j]) == 1]
    rec.note(case, bool(truth), [kind, f"pairs={min(len(truth) // 2, 5)}"])
    # the caller's own reference set: handed to find_neighbor_pairs first and to the other utilities afterwards (same object)
    shared = set(seqs) if (len(seqs) + len(case.get("queries", []))) % 2 else None
    pairs = call("find_neighbor_pairs", D.find_neighbor_pairs, shared if shared is not None else list(seqs), nb)
    got = [frozenset(p) for p in pairs]
    want = [frozenset((seqs[i], seqs[j])) for i, j in truth if i < j]
    same_multiset("find_neighbor_pairs", got, want, f"seqs={seqs}")
    for p in pairs:
        if len(p) != 2:
            raise Violation("find_neighbor_pairs-shape", f"{p!r}")
    idx = call("find_neighbor_pairs_index", D.find_neighbor_pairs_index, list(seqs), nb)
    same_multiset("find_neighbor_pairs_index", [(int(a), int(b)) for a, b in idx], truth, f"seqs={seqs}")
    nums = call("calculate_neighbor_numbers", D.calculate_neighbor_numbers, list(seqs), None, nb)
    want_n = [sum(1 for j in range(len(seqs)) if j != i and d(seqs[i], seqs[j]) == 1) for i in range(len(seqs))]
    if [int(v) for v in nums] != want_n:
        raise Violation("calculate_neighbor_numbers", f"seqs={seqs}: {list(nums)} != {want_n}")
    # repeated query sequences with the documented default reference (set(seqs)): every occurrence gets the same count
    rep = list(seqs) + [seqs[0], seqs[-1]] + list(seqs[:2])
    nums_r = call("calculate_neighbor_numbers", D.calculate_neighbor_numbers, rep, None, nb)
    want_r = [sum(1 for r in seqs if d(q, r) == 1) for q in rep]
    if [int(v) for v in nums_r] != want_r:
        raise Violation("calculate_neighbor_numbers-repeats", f"seqs={rep} (default reference): {list(nums_r)} != {want_r}")
    # with an explicit reference set and queries outside it
    queries = case.get("queries", [])
    if queries:
        ref = shared if shared is not None else set(seqs)
        nums2 = call("calculate_neighbor_numbers", D.calculate_neighbor_numbers, list(queries), ref, nb)
        want2 = [sum(1 for r in seqs if d(q, r) == 1) for q in queries]
        if [int(v) for v in nums2] != want2:
            raise Violation("calculate_neighbor_numbers-reference", f"queries={queries} reference=set of {sorted(seqs)}{' (the set object find_neighbor_pairs was given before)' if shared is not None else ''}: {list(nums2)} != {want2}")
        for q in list(queries) + list(seqs[:2]):      # also strings that are themselves members of the reference
            g = call("isdist1", D.isdist1, q, ref, nb)
            w = any(d(q, r) == 1 for r in seqs)
            if bool(g) != w:
                raise Violation("isdist1", f"isdist1({q!r}, set of {sorted(seqs)}) = {g!r}, expected {w}")


def check_many_partners(case, rec):
    """A reference holding (almost) the whole one-edit ball of a sequence: several hundred distance-1 partners."""
    x = case["x"]
    ball = sorted(universe_dist1(x, G.AA))
    ref = set(ball[:: case.get("stride", 1)]) | {x}
    others = [ball[0], ball[-1], x[:-1] + "W" + "W"]
    want = [sum(1 for r in ref if O.lev(s, r) == 1) for s in [x] + others]
    rec.note(case, want[0] >= 256, [f"partners={want[0]}"])
    got = call("calculate_neighbor_numbers", D.calculate_neighbor_numbers, [x] + others, ref, D.levenshtein_neighbors)
    if [int(v) for v in got] != want:
        raise Violation("calculate_neighbor_numbers-many", f"x={x!r}, reference = {len(ref)} strings: {list(got)} != {want}")
    if not call("isdist1", D.isdist1, x, ref):
        raise Violation("isdist1", f"isdist1({x!r}, reference containing x and its one-edit ball) is False")


def enum_many_partners(tier):
    for x in ("CASSLGQ", "CASSLGQAYEQYF", "AAAAAAAA"):
        for stride in (1, 2):
            yield {"x": x, "stride": stride}


def check_nndist(case, rec):
    seq, ref, maxdist = case["seq"], case["reference"], case["maxdist"]
    true = min((O.ham(seq, r) for r in ref), default=O.INF)   # other-length strings are never Hamming neighbours
    want = min(true, maxdist)
    rec.note(case, 1 <= true <= 4 or true == O.INF, [f"true={min(true, 6)}", f"maxdist={maxdist}", "short_seq" if len(seq) < maxdist else "seq>=maxdist"])
    got = call("nndist_hamming", D.nndist_hamming, seq, set(ref), maxdist=maxdist)
    if int(got) != want:
        raise Violation("nndist_hamming", f"nndist_hamming({seq!r}, {ref}, maxdist={maxdist}) = {got!r}, expected min({true}, {maxdist})")


# ---------------------------------------------------------------------------
def enum_lev(tier):
    specs = [("A", 6), ("AC", 5), ("ACD", 4), ("ACDE", 3)] if tier == "quick" else [("A", 9), ("AC", 7), ("ACD", 6), ("ACDE", 5), ("ACDEF", 4)]
    for alpha, L in specs:
        for x in O.all_strings(alpha, L):
            yield {"x": x, "alphabet": alpha, "full_universe": len(x) <= 3}


def enum_ham(tier):
    specs = [("A", 5), ("AC", 5), ("ACD", 4), ("ACDE", 3)] if tier == "quick" else [("A", 7), ("AC", 7), ("ACD", 5), ("ACDE", 4)]
    for alpha, L in specs:
        for x in O.all_strings(alpha, L):
            yield {"x": x, "alphabet": alpha}
            if 1 <= len(x) <= 4:
                for r in range(0, len(x) + 1):
                    for pos in itertools.combinations(range(len(x)), r):
                        yield {"x": x, "alphabet": alpha, "positions": list(pos)}


def enum_next(tier):
    for alpha, L in (("A", 3), ("AC", 3), ("ACD", 2 if tier == "quick" else 3)):
        for x in O.all_strings(alpha, L):
            for md in (1, 2, 3):
                for kind in ("lev", "ham"):
                    if kind == "ham" and not x:
                        continue
                    yield {"x": x, "alphabet": alpha, "maxdistance": md, "kind": kind}


@st.composite
def run_string(draw, alpha=G.AA, max_len=12):
    parts = draw(st.lists(st.tuples(st.sampled_from(alpha), st.sampled_from([1, 1, 2, 3])), max_size=6))
    s = "".join(c * k for c, k in parts)
    return s[:max_len]


@st.composite
def lev_random(draw, tier="quick"):
    return {"x": draw(run_string()), "alphabet": G.AA, "default_alphabet": draw(st.booleans())}


@st.composite
def ham_random(draw, tier="quick"):
    x = draw(run_string())
    case = {"x": x, "alphabet": G.AA}
    if x and draw(st.booleans()):
        case["positions"] = sorted(draw(st.sets(st.integers(0, len(x) - 1), max_size=len(x))))
        case["positions_as"] = draw(st.sampled_from(["list", "tuple", "iter", "generator", "set", "reversed"]))
    return case


@st.composite
def pair_case(draw, tier="quick"):
    kind = draw(st.sampled_from(["lev", "ham"]))
    alpha = draw(st.sampled_from(["AC", "ACD", G.AA]))
    fam = draw(G.clonal_family(alpha=alpha, max_size=14, founder_len=(1, 7), max_edits=2, equal_length=(kind == "ham")))
    seqs = list(dict.fromkeys(fam))
    if kind == "ham":
        seqs = [s for s in seqs if len(s) == len(seqs[0])]
    q = draw(G.clonal_family(alpha=alpha, max_size=5, founder_len=(1, 7), max_edits=2))
    from checks.nnlib import apply_edits
    queries = [apply_edits(seqs[i % len(seqs)], [(0 if kind == "ham" else k, p, l)], alpha)
               for i, (k, p, l) in enumerate(draw(st.lists(st.tuples(st.integers(0, 2), st.integers(0, 20), st.integers(0, 19)), max_size=5)))]
    if kind == "ham":
        queries = [s for s in queries if len(s) == len(seqs[0])]
    return {"seqs": seqs, "kind": kind, "alphabet": alpha, "queries": queries}


@st.composite
def nndist_case(draw, tier="quick"):
    L = draw(st.integers(1, 9))
    seq = "".join(draw(st.lists(st.sampled_from(G.AA), min_size=L, max_size=L)))
    ref = []
    for _ in range(draw(st.integers(1, 6))):
        k = draw(st.integers(0, min(L, 6)))
        pos = draw(st.lists(st.integers(0, L - 1), min_size=k, max_size=k, unique=True))
        s = list(seq)
        for p in pos:
            others = [a for a in G.AA if a != seq[p]]
            s[p] = draw(st.sampled_from(others))
        ref.append("".join(s))
    mode = draw(st.sampled_from(["near", "near", "near", "empty", "other_lengths", "mixed"]))
    if mode == "empty":
        ref = []
    elif mode == "other_lengths":
        ref = [r + "A" for r in ref] + [r[:-1] for r in ref]
    elif mode == "mixed":
        ref = ref + [ref[0] + "C", seq[:-1]]
    return {"seq": seq, "reference": ref, "maxdist": draw(st.integers(1, 4))}


def enum_nndist_short(tier):
    # short queries against empty / other-length / far reference sets, every maxdist
    for seq in ("A", "AC", "CAS", "CASS"):
        for ref in ([], [seq + "A"], ["W" * len(seq)], [seq[:-1]], ["W" * len(seq), seq + "AA"]):
            for md in (1, 2, 3, 4):
                yield {"seq": seq, "reference": ref, "maxdist": md}


def enum_nndist(tier):
    # exhaustive over a 2-position / 3-position pattern space: which positions differ
    seq = "ACDEF"
    for k in range(0, 6):
        for pos in itertools.combinations(range(5), k):
            s = list(seq)
            for p in pos:
                s[p] = "W"
            for md in (1, 2, 3, 4):
                yield {"seq": seq, "reference": ["".join(s), "WWWWW"], "maxdist": md}


SUBS = [
    Sub("lev_exhaustive", check_lev_neighbors, enum=enum_lev),
    Sub("ham_exhaustive", check_ham_neighbors, enum=enum_ham),
    Sub("next_exhaustive", check_next_nearest, enum=enum_next),
    Sub("many_partners", check_many_partners, enum=enum_many_partners),
    Sub("nndist_exhaustive", check_nndist, enum=enum_nndist),
    Sub("nndist_short", check_nndist, enum=enum_nndist_short),
    Sub("lev_random", check_lev_neighbors, strategy=lambda t: lev_random(t), budget=(1500, 15000)),
    Sub("ham_random", check_ham_neighbors, strategy=lambda t: ham_random(t), budget=(1000, 10000)),
    Sub("pair_utils", check_pair_utils, strategy=lambda t: pair_case(t), budget=(1500, 15000)),
    Sub("nndist_random", check_nndist, strategy=lambda t: nndist_case(t), budget=(600, 6000)),
]


# ---------------------------------------------------------------------------
# thorough tier: coverage-guided fuzzing (atheris) of the pure-Python generators, same oracle inside the target
# ---------------------------------------------------------------------------
def fuzz_decode_lev(fdp):
    alpha = "ACDEFGHIKL"[: fdp.ConsumeIntInRange(1, 6)]
    L = fdp.ConsumeIntInRange(0, 9)
    x = "".join(alpha[fdp.ConsumeIntInRange(0, len(alpha) - 1)] for _ in range(L))
    return {"x": x, "alphabet": alpha}


def fuzz_decode_nndist(fdp):
    L = fdp.ConsumeIntInRange(1, 6)
    seq = "".join(G.AA[fdp.ConsumeIntInRange(0, 19)] for _ in range(L))
    ref = []
    for _ in range(fdp.ConsumeIntInRange(0, 4)):
        s = list(seq)
        for _ in range(fdp.ConsumeIntInRange(0, 4)):
            s[fdp.ConsumeIntInRange(0, L - 1)] = G.AA[fdp.ConsumeIntInRange(0, 19)]
        ref.append("".join(s))
    return {"seq": seq, "reference": ref, "maxdist": fdp.ConsumeIntInRange(1, 4)}


FUZZ = {"levenshtein_neighbors": (fuzz_decode_lev, "lev_random"), "nndist_hamming": (fuzz_decode_nndist, "nndist_random")}
FUZZ_RUNS = 160000
