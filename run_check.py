#!/venv/bin/python
"""Entry point: run_check.py <ID> [--tier quick|thorough] [--replay FILE]

exit 0  property held on everything explored (KNOWN-FINDING lines possible)
exit 1  VIOLATION property=<id> replay=<path>
exit 2  harness error (never a verdict about the property)
"""
import argparse
import importlib
import os
import sys

sys.path.insert(0, os.path.dirname(os.path.abspath(__file__)))
from vlib import boot, core  # noqa: E402


def main():
    ap = argparse.ArgumentParser()
    ap.add_argument("prop")
    ap.add_argument("--tier", default=os.environ.get("VERIF_TIER", "quick"))
    ap.add_argument("--seed", default=os.environ.get("VERIF_SEED", "1"))
    ap.add_argument("--shards", type=int, default=int(os.environ.get("VERIF_SHARDS", "16")))
    ap.add_argument("--shard", default=None, help="internal: i/n")
    ap.add_argument("--out", default=None)
    ap.add_argument("--wall", type=float, default=None, help="soft wall budget per shard (s)")
    ap.add_argument("--replay", default=None)
    a = ap.parse_args()
    if a.tier not in core.TIERS:
        a.tier = "quick"
    try:
        seed = int(a.seed)
    except ValueError:
        seed = core.derive_seed(a.seed)
    prop = a.prop.upper()
    modname = f"checks.{prop.lower()}"
    try:
        boot.ensure_deps()
        if a.replay:
            mod = importlib.import_module(modname)
            return core.replay_main(mod, a.replay)
        if a.shard:
            i, n = a.shard.split("/")
            mod = importlib.import_module(modname)
            return core.shard_main(mod, a.tier, seed, int(i), int(n), a.out, a.wall)
        wall = a.wall
        if wall is None:
            wall = {"quick": 240.0, "thorough": 3000.0}[a.tier]
        return core.parent_main(prop, modname, a.tier, seed, a.shards, wall)
    except Exception:
        import traceback
        traceback.print_exc()
        print("HARNESS-ERROR")
        return 2


if __name__ == "__main__":
    sys.exit(main())
