#!/venv/bin/python
import json, os, sys, glob
HERE = os.path.dirname(os.path.dirname(os.path.abspath(__file__)))
sys.path.append(os.path.join(HERE, ".deps"))
import jsonschema
schema = json.load(open("/root/.vp/EVIDENCE.schema.json"))
bad = 0
for p in sorted(glob.glob(os.path.join(HERE, "evidence", "*.json"))):
    try:
        jsonschema.validate(json.load(open(p)), schema)
        print("ok ", os.path.basename(p))
    except Exception as e:
        bad += 1
        print("BAD", os.path.basename(p), str(e)[:300])
sys.exit(1 if bad else 0)
