#!/venv/bin/python
"""Regenerate MANIFEST.json from the table below and validate it against the schema."""
import json
import os
import sys

HERE = os.path.dirname(os.path.dirname(os.path.abspath(__file__)))
sys.path.insert(0, HERE)
sys.path.append(os.path.join(HERE, ".deps"))

PY = "/venv/bin/python"

# id -> (technique, level text, level note, design ref)
CHECKS = {}


def add(pid, technique, text, note, ref):
    CHECKS[pid] = dict(technique=technique, text=text, note=note, ref=ref)


add("C01", "property-based testing (Hypothesis) + exhaustive small-scope enumeration vs brute-force DP oracle",
    "Exploration: every string up to a length bound on 1-4 letter alphabets in one call (k=1..4) plus thousands of "
    "generated clonal-family repertoires, compared as multisets with an independent Wagner-Fischer all-pairs oracle. "
    "Right level because the claim is for-all-inputs with a cheap exact oracle; absence beyond the explored bounds is not established.",
    "Trusted: own DP oracle (cross-checked with the Levenshtein C library at start-up), Hypothesis generation; inputs passed as lists.",
    "DESIGN.md section 4, C01")

NOT_APPLICABLE = []


def main():
    checks = []
    for pid, c in sorted(CHECKS.items()):
        checks.append({
            "property_id": pid,
            "quick_cmd": f"{PY} run_check.py {pid} --tier quick",
            "thorough_cmd": f"{PY} run_check.py {pid} --tier thorough",
            "evidence_file": f"evidence/{pid}.json",
            "replay_cmd_template": f"{PY} run_check.py {pid} --replay {{path}}",
            "engine": "runner",
            "level_claimed": {"category": "exploration", "text": c["text"], "design_ref": c["ref"]},
            "level_note": c["note"],
            "technique": c["technique"],
        })
    claimed = set(CHECKS)
    props = [json.loads(l)["id"] for l in open(os.path.join(HERE, "properties.jsonl")) if l.strip()]
    na = [x for x in NOT_APPLICABLE]
    na_ids = {x["property_id"] for x in na}
    for p in props:
        if p not in claimed and p not in na_ids:
            na.append({"property_id": p, "reason": "check not built yet in this revision of /verif (planned, see DESIGN.md section 4)"})
    manifest = {
        "version": 1,
        "setup_cmd": f"{PY} -m pip install --quiet --no-index --find-links /opt/veriftools/wheels --target /verif/.deps hypothesis jsonschema atheris",
        "hooks": {
            "guard": "PYREPSEQ_VERIF",
            "enable": "no instrumentation is needed: checks import /repo's working tree directly (vlib/boot.py puts /repo first on sys.path and exports PYREPSEQ_VERIF=1 for any future hook)",
            "baseline_off_cmd": "cd /repo && env -u PYREPSEQ_VERIF /venv/bin/python -m pytest -ra -q -p no:cacheprovider --timeout=900 --continue-on-collection-errors",
            "source_commits": [],
            "add_only": True,
        },
        "engines": [{
            "name": "runner",
            "path": "run_check.py",
            "serves_properties": sorted(claimed),
            "kind_free_text": "Hypothesis 6.168 property-based testing + exhaustive small-scope enumeration, 16 sharded subprocesses, JSON replay files, atheris fuzz targets in the thorough tier of selected properties",
        }],
        "checks": checks,
        "not_applicable": sorted(na, key=lambda x: x["property_id"]),
        "notes": "All commands run with cwd=/verif, honour VERIF_SEED / VERIF_TIER, import pyrepseq from /repo's working tree, exit 0/1/2 = held / violation / harness error.",
    }
    with open(os.path.join(HERE, "MANIFEST.json"), "w") as f:
        json.dump(manifest, f, indent=1)
    try:
        import jsonschema
        schema = json.load(open("/root/.vp/MANIFEST.schema.json"))
        jsonschema.validate(manifest, schema)
        print("MANIFEST.json valid;", len(checks), "checks,", len(na), "not_applicable")
    except ImportError:
        print("jsonschema unavailable; not validated")


if __name__ == "__main__":
    main()
