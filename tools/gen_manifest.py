#!/venv/bin/python
"""Regenerate MANIFEST.json from the table below and validate it against the schema."""
import json
import os
import sys

HERE = os.path.dirname(os.path.dirname(os.path.abspath(__file__)))
sys.path.insert(0, HERE)
sys.path.append(os.path.join(HERE, ".deps"))

PY = "/venv/bin/python"

# id -> (technique, level text, level note, design ref)
CHECKS = {}


def add(pid, technique, text, note, ref):
    CHECKS[pid] = dict(technique=technique, text=text, note=note, ref=ref)


PBT = "property-based testing (Hypothesis)"
ENTRIES = {
 "C01": (PBT + " + exhaustive small-scope enumeration vs brute-force DP all-pairs oracle",
   "every string up to a length bound on 1-4 letter alphabets in one call (k=1..4), thousands of generated clonal-family repertoires (multiset equality with an independent Wagner-Fischer all-pairs oracle) and planted collections of 600-2,500 (thorough: 50,000) sequences whose exact neighbour set is known by construction; atheris campaigns in the thorough tier",
   "own DP oracle (cross-checked with the Levenshtein C library at start-up); inputs passed as lists"),
 "C02": (PBT + " + exhaustive enumeration of multiplicity patterns vs exact Fraction pair counting; metamorphic relations",
   "all integer partitions of N<=10 (13 thorough) and all pattern pairs N1,N2<=5 (6), random samples / tables incl. adversarial separator rows, compared to literal pair counting in exact rationals, plus permutation / relabelling / pc_n / pc_joint identities",
   "cell text without '.' / '_', numeric columns integer typed without missing cells (stated domain); tolerance 1e-12"),
 "C03": (PBT + ", rule-based state machine for lookup histories, exhaustive small universes vs brute-force cross oracle",
   "generated (reference, query) pairs through all four two-collection entry points (incl. the same object as both collections and 2,600-9,000 queries with a by-construction oracle) and up to 12-step lookup histories (Levenshtein / Hamming / custom interleaved) against one SymdelDB + LookupDB, each answer compared with the oracle and with a fresh one-shot search",
   "LookupDB cases restricted to amino-acid strings and k<=2 (its edit ball is exponential)"),
 "C04": (PBT + " + exhaustive 3-letter universes + radius-boundary family; three-way differential (engine / brute force / nearest_neighbor)",
   "all strings <=L over ACD/CDE/AWY for k=1..3, boundary pairs at exactly sqrt(2)*k for k<=20 (40), random amino-acid repertoires with compression, uniform-length frame-shift families, homopolymer runs of 62-257 residues, planted collections of up to 30,000 sequences",
   "hash_based radius 3 only on strings of length <= 2-3"),
 "C05": (PBT + " vs own distance + histogram oracle; enumerated sub-multisets for maxseqs",
   "generated collections (incl. distances >= 256, the same object as both collections, sizes 2^k-1 / 2^k / 2^k+1 up to 2,049), second collections, TCR tables in any column order, bin edge vectors, pseudocounts, custom Metric subclass; counts compared exactly, normalised values at 1e-12; bins=0 == pc, distance-0 count, default metric choice, background alignment",
   "sub-multiset oracle for maxseqs is independent of how the RNG is consumed"),
 "C06": ("exact rational enumeration of every count vector at generated rational points of the simplex (Hypothesis-drawn N, K, p)",
   "E[pc_n] == sum p^2 and E[varpc_n] == Var[pc] checked with == through the real functions on Fraction object arrays, for every composition of N into K parts; float path at 1e-10; stdpc relations",
   "identity established at sampled rational points / sizes (Schwartz-Zippel argument), not symbolically"),
 "C07": (PBT + " + exhaustive AC universes in several interleavings vs brute-force Hamming oracle",
   "mixed-length lists with explicit interleaving patterns through all engines (self and two-collection) in Hamming mode, multiset equality",
   "amino-acid alphabet"),
 "C08": (PBT + " vs own (weighted) DP per cell and condensed-index formula",
   "string collections incl. 200-400 long strings and Unicode, weight triples 1..30 incl. asymmetric, SciPy layout of calc_pdist_vector, functional pdist/cdist with metric callables and keyword forwarding",
   "weighted values < 2^24 (float32 exact); default uint8 only used when values fit"),
 "C09": (PBT + " vs independently computed weighted sum over chains and loops; metamorphic identities; enumerated rejection classes",
   "generated anchor/comparison tables over V alleles from the gene reference (incl. alleles without CDR2), all six classes x weight vectors, additivity, permutation, index relabelling, pdist layout, ValueError rejection, input tables unchanged",
   "tidytcells' allele -> CDR lookup is trusted"),
 "C10": (PBT + " differential over output formats and containers; enumerated invalid-argument classes",
   "search cases x 3 output types x 8 containers (both collections) x 8 entry points against the brute-force triplets / dense matrix; 25 invalid-argument classes x 4 public engines must raise",
   "any exception type counts as rejection"),
 "C11": (PBT + " + enumerated (list size x n_cpu) grid; differential vs single-process run and brute force; validity predicate for max_returns",
   "every chunking ratio incl. n_cpu > len(seqs) (grid 11x7 quick, 40x16 thorough), compressions of equal dimension on overlapping lists across consecutive calls, dense families of 150-229 mutually close sequences, default / hamming / custom (closure) modes, max_returns semantics",
   "fork start method; Pool.map ordering; OS-level worker interleavings not controlled"),
 "C12": ("exhaustive enumeration of all strings up to a length bound on 1-4 letter alphabets + " + PBT + " vs brute-force distance oracle",
   "levenshtein_neighbors / hamming_neighbors (all position subsets) / next_nearest_neighbors exhaustively, pair utilities and nndist_hamming on generated and enumerated inputs, multiset equality (each neighbour exactly once)",
   "pair utilities on unique sequences; nndist on equal-length strings"),
 "C13": (PBT + " vs dict-based grouping + the C02/C05 oracles and an independently derived variance estimator",
   "generated tables with unsorted keys, singleton groups, weights, bases, bins / bins=0, condensed / square forms",
   "square form decided on bins=0"),
 "C14": (PBT + " vs two-radius brute-force oracle; exhaustive sweep of the bundled tables",
   "7 symmetric custom distances x 6 engines x finite/infinite radii; nearest_neighbor_tcrdist vs brute force on the stand-in; every entry of both V-gene CSVs",
   "tcrdist decided against the vendored pwseqdist stand-in"),
 "C15": (PBT + " vs union-find components and SciPy on own distances; cross-module identity",
   "neighbour lists produced by the real search functions incl. empty ones, 4-7 clustering methods, hierarchical clustering x linkage/criterion, single-linkage == neighbour-graph components",
   "igraph RNG seeded through Python's random"),
 "C16": (PBT + " + enumerated (f1, f2) grid vs closed forms in exact Fractions / Python set algebra",
   "frequency-of-frequency vectors up to 10^6, all containers incl. sets, missing values, symmetry / duplication invariance",
   "NaN represents 'undefined'"),
 "C17": (PBT + " with seeded NumPy RNG; conservation invariants and Hoeffding-bounded moment tests",
   "subsample conservation laws for generated count vectors and every kind of n, hypergeometric first / second / cross moments over 20000 draws at delta=1e-12, downsample identity / sub-multiset, power-law support and distribution, MLE closed forms and grid-dominance for 'exact'",
   "Hoeffding bounds (rigorous, no CLT)"),
 "C18": (PBT + " over recursive object trees, per-cell differential vs tidytcells, dict-based join model",
   "predicates on arbitrary object trees (total, bool), standardize_dataframe per-cell equality / locality / purity over option combinations, multimerge vs join model",
   "tidytcells is the per-cell oracle"),
 "C19": (PBT + " with headless matplotlib; artist data read back; regex language equivalence by exhaustive / sampled strings",
   "regex vs own DP language membership, consensus, logo counts, rank-frequency line data, colour maps, scatter multiplicities, cluster-map linkage / order / split heat map",
   "pixels not inspected; no external aligner"),
 "C20": ("rule-based state machine (Hypothesis) over a catalogue of API calls + enumerated ordered pairs; differential vs fresh-interpreter references; delta-minimised histories",
   "argument snapshots before/after every call and result equality with the same call executed alone in a fresh interpreter, over generated histories and ordered pairs (all pairs in the thorough tier)",
   "fixed catalogue of representative calls; a mismatch is reported only after reproduction in a fresh interpreter"),
}
# generator families added after the sixth / seventh seeded rounds (DESIGN.md 8.2)
EXTRA = {
 "C01": "dense collections (all single substitutions of 1-3 founders) and alphabets whose letters differ only in case / blanks / Unicode normalisation",
 "C02": "samples of 120,000-1,000,000 distinct elements with planted repeats; integer ids up to 1e15; categorical samples",
 "C03": "both collections as tuple / array / Series with default, shifted, permuted or string index",
 "C04": "dense collections; a prior search of the same sequences in another mode / radius before the judged call",
 "C05": "bins=0 on every table against pc and the exact row-coincidence fraction; maxseqs at scale (up to 40,000 distinct sequences)",
 "C06": "beyond enumeration: counts up to 2^31 and count vectors of up to 300,000 entries in five dtypes against the closed-form unique unbiased estimators (exact integers); categorical / Series / array samples",
 "C07": "dense Hamming families of 229-687 sequences mixed with other lengths",
 "C08": "keyword forwarding through **options, keyword-only, callable-object, undecorated-wrapper, partial and lambda callables, incl. explicit None values",
 "C10": "the same object passed as both collections",
 "C11": "runs of 127-300 equal or same-bin residues under several compressions; a custom distance not exact in float32",
 "C12": "one caller-owned set shared between the utilities; repeated query sequences with the default reference",
 "C13": "tables with repeating index labels",
 "C14": "planted (300-6,000) and dense (229-687) collections with custom distances",
 "C15": "metric weights up to 300 and 300-400-residue sequences (distances > 255); chain components and re-ordered neighbour lists; explicitly empty linkage_kws",
 "C16": "symmetry on the same two objects; categorical Series with unused categories",
 "C18": "cells in other letter case / with trailing blanks next to their originals",
 "C19": "1,000-300,000 sequences with known counts for logo / regex / consensus; unsigned count arrays with zeros",
 "C20": "raising CDR-metric calls, a failing fit followed by NaN-returning calls, a too-short colour-mapper list in the catalogue",
}
for _pid, (_tech, _text, _note) in ENTRIES.items():
    if _pid in EXTRA:
        _text = _text + "; also " + EXTRA[_pid]
    add(_pid, _tech,
        "Exploration: " + _text + ". Right level because the property is a for-all claim with an executable exact oracle; nothing beyond the explored bounds is established.",
        "Trusted base / assumptions: " + _note + "; Hypothesis generation seeded from VERIF_SEED.",
        "DESIGN.md section 4, " + _pid)

NOT_APPLICABLE = []


def main():
    checks = []
    for pid, c in sorted(CHECKS.items()):
        checks.append({
            "property_id": pid,
            "quick_cmd": f"{PY} run_check.py {pid} --tier quick",
            "thorough_cmd": f"{PY} run_check.py {pid} --tier thorough",
            "evidence_file": f"evidence/{pid}.json",
            "replay_cmd_template": f"{PY} run_check.py {pid} --replay {{path}}",
            "engine": "runner",
            "level_claimed": {"category": "exploration", "text": c["text"], "design_ref": c["ref"]},
            "level_note": c["note"],
            "technique": c["technique"],
        })
    claimed = set(CHECKS)
    props = [json.loads(l)["id"] for l in open(os.path.join(HERE, "properties.jsonl")) if l.strip()]
    na = [x for x in NOT_APPLICABLE]
    na_ids = {x["property_id"] for x in na}
    for p in props:
        if p not in claimed and p not in na_ids:
            na.append({"property_id": p, "reason": "check not built yet in this revision of /verif (planned, see DESIGN.md section 4)"})
    manifest = {
        "version": 1,
        "setup_cmd": f"{PY} -m pip install --quiet --no-index --find-links /opt/veriftools/wheels --target /verif/.deps hypothesis jsonschema atheris",
        "hooks": {
            "guard": "PYREPSEQ_VERIF",
            "enable": "no instrumentation is needed: checks import /repo's working tree directly (vlib/boot.py puts /repo first on sys.path and exports PYREPSEQ_VERIF=1 for any future hook)",
            "baseline_off_cmd": "cd /repo && env -u PYREPSEQ_VERIF /venv/bin/python -m pytest -ra -q -p no:cacheprovider --timeout=900 --continue-on-collection-errors",
            "source_commits": [],
            "add_only": True,
        },
        "engines": [{
            "name": "runner",
            "path": "run_check.py",
            "serves_properties": sorted(claimed),
            "kind_free_text": "Hypothesis 6.168 property-based testing + exhaustive small-scope enumeration, 16 sharded subprocesses, JSON replay files, atheris fuzz targets in the thorough tier of selected properties",
        }],
        "checks": checks,
        "not_applicable": sorted(na, key=lambda x: x["property_id"]),
        "notes": "All commands run with cwd=/verif, honour VERIF_SEED / VERIF_TIER, import pyrepseq from /repo's working tree, exit 0/1/2 = held / violation / harness error.",
    }
    with open(os.path.join(HERE, "MANIFEST.json"), "w") as f:
        json.dump(manifest, f, indent=1)
    try:
        import jsonschema
        schema = json.load(open("/root/.vp/MANIFEST.schema.json"))
        jsonschema.validate(manifest, schema)
        print("MANIFEST.json valid;", len(checks), "checks,", len(na), "not_applicable")
    except ImportError:
        print("jsonschema unavailable; not validated")


if __name__ == "__main__":
    main()
