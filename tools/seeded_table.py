#!/venv/bin/python
"""Print the markdown table of kept seeded breakages (DESIGN.md section 8.2) from /verif/seeded/*/meta.json."""
import glob
import json
import os

HERE = os.path.dirname(os.path.dirname(os.path.abspath(__file__)))
rows = []
for d in sorted(glob.glob(os.path.join(HERE, "seeded", "*"))):
    mp = os.path.join(d, "meta.json")
    if not os.path.exists(mp):
        continue
    m = json.load(open(mp))
    v = m.get("verified", {})
    checks = v.get("checks", {})
    verdict = ", ".join(f"{p}: {r}" for p, r in checks.items())
    line = ""
    for p, ls in v.get("violation_lines", {}).items():
        for l in ls:
            if "sub=" in l:
                line = l.strip().split(" :: ")[0].replace("sub=", "").replace(" kind=", " / ")
                break
        if line:
            break
    first = m.get("first_round", "")
    rows.append((os.path.basename(d), m.get("summary", "").replace("|", "/")[:120], str(m.get("needs", "")).replace("|", "/")[:130], verdict, line, first))
print("| id | change | needs, in order to manifest | verdict of the registered quick check | caught by (sub-check / kind) | first round |")
print("|---|---|---|---|---|---|")
for r in rows:
    print("| " + " | ".join(r) + " |")
