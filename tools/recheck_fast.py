#!/venv/bin/python
"""Re-run ONLY the registered quick check of each kept seeded change (no demo, no test suite - those were confirmed when the
change was kept) and refresh the verdict in its meta.json.  usage: recheck_fast.py [--benign] [--shard i/n] [ID_x ...]
With --benign the kept property-PRESERVING changes under benign/ are re-run instead (expected verdict: quiet)."""
import json
import os
import shutil
import subprocess
import sys

HERE = os.path.dirname(os.path.dirname(os.path.abspath(__file__)))
sys.path.insert(0, os.path.join(HERE, "mutants"))
import sensitivity as S  # noqa: E402


def main():
    args = sys.argv[1:]
    folder = "seeded"
    if args and args[0] == "--benign":
        folder = "benign"
        args = args[1:]
    shard = None
    if args and args[0] == "--shard":
        i, n = args[1].split("/")
        shard = (int(i), int(n))
        args = args[2:]
    names = args or sorted(os.listdir(os.path.join(HERE, folder)))
    if shard:
        names = [x for k, x in enumerate(names) if k % shard[1] == shard[0]]
    for name in names:
        src = os.path.join(HERE, folder, name)
        patch = os.path.join(src, "patch.diff")
        if not os.path.exists(patch):
            continue
        meta = json.load(open(os.path.join(src, "meta.json")))
        prop = name[:3]
        d = S.make_copy()
        try:
            ap = subprocess.run(["git", "apply", "--unsafe-paths", "--directory", d, patch], capture_output=True, text=True, cwd="/")
            if ap.returncode != 0:
                ap = subprocess.run(["patch", "-p1", "-i", patch], cwd=d, capture_output=True, text=True)
            if ap.returncode != 0:
                print(f"{name}: PATCH-DOES-NOT-APPLY", flush=True)
                continue
            rc, out = S.run_check(d, prop, "quick", "1")
        finally:
            shutil.rmtree(d, ignore_errors=True)
        if folder == "benign":
            verdict = {0: "quiet", 1: "ALARM"}.get(rc, f"harness-error rc={rc}")
            old = meta.get("verified", {}).get("check")
            print(f"{name}: {verdict}" + ("" if old == verdict else f"   (was: {old})"), flush=True)
            meta.setdefault("verified", {})["check"] = verdict
            with open(os.path.join(src, "meta.json"), "w") as f:
                json.dump(meta, f, indent=1)
            continue
        verdict = "caught" if rc == 1 else ("missed" if rc == 0 else f"harness-error rc={rc}")
        old = meta.get("verified", {}).get("checks", {}).get(prop)
        lines = [l[:300] for l in out.splitlines() if l.startswith("VIOLATION") or l.startswith("  sub=")][:2]
        print(f"{name}: {verdict}" + ("" if old == verdict else f"   (was: {old})"), flush=True)
        v = meta.setdefault("verified", {})
        if v.get("tier") == "thorough" and verdict == "missed":
            continue      # a change that only the thorough tier catches keeps its thorough verdict
        v.setdefault("checks", {})[prop] = verdict
        v.setdefault("violation_lines", {})[prop] = lines
        v["tier"] = "quick"
        with open(os.path.join(src, "meta.json"), "w") as f:
            json.dump(meta, f, indent=1)


if __name__ == "__main__":
    main()
