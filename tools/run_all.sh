#!/bin/bash
# usage: tools/run_all.sh [tier] [seed]   -- runs every registered check sequentially, prints one line per property
cd "$(dirname "$0")/.."
tier=${1:-quick}; seed=${2:-1}
mkdir -p .work/logs
fail=0
for i in $(seq -w 1 20); do
  id=C$i
  start=$(date +%s)
  VERIF_SEED=$seed /venv/bin/python run_check.py $id --tier $tier > .work/logs/$id.$tier.$seed.log 2>&1
  rc=$?
  end=$(date +%s)
  echo "$id rc=$rc $((end-start))s $(grep -m1 '^\[' .work/logs/$id.$tier.$seed.log)"
  [ $rc -ne 0 ] && fail=1 && grep -E "VIOLATION|HARNESS|sub=" .work/logs/$id.$tier.$seed.log | head -5
done
exit $fail
