#!/venv/bin/python
"""Confirm and evaluate independently seeded breakages.

usage: eval_seeded.py SRC_DIR [...]        (SRC_DIR holds patch.diff, demo.py, meta.json; property id from meta.json)
       eval_seeded.py --recheck [ID_x ...] (re-run the registered check against already kept /verif/seeded/*)

For every candidate: copy /repo to a scratch dir (outside /repo and /verif), run the demo on the clean copy (must exit 0),
apply the patch, confirm the 71-test baseline still passes, run the demo (must exit 1), then run the property's quick
check against the patched copy. A confirmed candidate is stored as /verif/seeded/<ID>_<variant>/ with the verdict in
meta.json. The scratch copy is removed afterwards.
"""
import json
import os
import shutil
import subprocess
import sys

HERE = os.path.dirname(os.path.dirname(os.path.abspath(__file__)))
sys.path.insert(0, os.path.join(HERE, "mutants"))
import sensitivity as S  # noqa: E402

PY = "/venv/bin/python"


def run_demo(copy, demo):
    env = dict(os.environ, MPLBACKEND="Agg", PYTHONDONTWRITEBYTECODE="1", PYTHONPATH=copy)
    env.pop("PYREPSEQ_VERIF", None)
    r = subprocess.run([PY, demo], cwd=copy, env=env, capture_output=True, text=True, timeout=1800)
    return r.returncode, (r.stdout + r.stderr)[-400:]


def evaluate(src, prop, tier="quick", seed="1", checks=None):
    res = {}
    d = S.make_copy()
    try:
        demo = os.path.join(src, "demo.py")
        res["demo_clean_exit"], _ = run_demo(d, demo)
        ap = subprocess.run(["git", "apply", "--unsafe-paths", "--directory", d, os.path.join(src, "patch.diff")], capture_output=True, text=True, cwd="/")
        if ap.returncode != 0:
            ap = subprocess.run(["patch", "-p1", "-i", os.path.join(src, "patch.diff")], cwd=d, capture_output=True, text=True)
        res["patch_applies"] = ap.returncode == 0
        if not res["patch_applies"]:
            res["patch_error"] = (ap.stdout + ap.stderr)[-300:]
            return res
        missing = S.run_tests(d)
        res["baseline_tests_missing"] = missing
        res["demo_patched_exit"], res["demo_patched_tail"] = run_demo(d, demo)
        res["checks"] = {}
        for p in (checks or [prop]):
            rc, out = S.run_check(d, p, tier, seed)
            res["checks"][p] = {"rc": rc, "lines": [l[:300] for l in out.splitlines() if l.startswith("VIOLATION") or l.startswith("  sub=")][:6]}
    finally:
        shutil.rmtree(d, ignore_errors=True)
    return res


def main():
    args = sys.argv[1:]
    extra_checks = None
    if "--also" in args:
        i = args.index("--also")
        extra_checks = args[i + 1].split(",")
        args = args[:i] + args[i + 2:]
    tier = "quick"
    if "--tier" in args:
        i = args.index("--tier")
        tier = args[i + 1]
        args = args[:i] + args[i + 2:]
    tag = ""
    if "--tag" in args:
        i = args.index("--tag")
        tag = args[i + 1]
        args = args[:i] + args[i + 2:]
    recheck = False
    if args and args[0] == "--recheck":
        recheck = True
        args = args[1:] or sorted(os.listdir(os.path.join(HERE, "seeded")))
        args = [os.path.join(HERE, "seeded", a) for a in args]
    for src in args:
        src = os.path.abspath(src.rstrip("/"))
        if not os.path.exists(os.path.join(src, "patch.diff")):
            continue
        meta = json.load(open(os.path.join(src, "meta.json")))
        prop = meta.get("property", "")[:3]
        variant = (tag + os.path.basename(src)) if not recheck else os.path.basename(src).split("_", 1)[1]
        if tag:
            meta["round"] = int(tag[1:]) if tag[1:].isdigit() else 2
        checks = [prop] + [c for c in (extra_checks or []) if c != prop]
        res = evaluate(src, prop, tier=tier, checks=checks)
        confirmed = (res.get("demo_clean_exit") == 0 and res.get("patch_applies") and not res.get("baseline_tests_missing")
                     and res.get("demo_patched_exit") == 1)
        caught = [p for p, v in res.get("checks", {}).items() if v["rc"] == 1]
        print(f"{prop}_{variant}: confirmed={confirmed} caught_by={caught} details={json.dumps({k: v for k, v in res.items() if k != 'checks'})[:400]}")
        for p, v in res.get("checks", {}).items():
            print(f"    {p}: rc={v['rc']} {v['lines'][:2]}")
        if confirmed:
            dst = os.path.join(HERE, "seeded", f"{prop}_{variant}")
            os.makedirs(dst, exist_ok=True)
            if not recheck:
                for f in ("patch.diff", "demo.py"):
                    shutil.copy(os.path.join(src, f), dst)
            meta["verified"] = {
                "what_i_ran": "tools/eval_seeded.py: scratch copy of /repo; demo on the clean copy (exit 0); patch applied; 71-test baseline re-run "
                              "(all still pass); demo on the patched copy (exit 1); quick check(s) against the patched copy via PYREPSEQ_SRC",
                "demo_clean_exit": res["demo_clean_exit"], "demo_patched_exit": res["demo_patched_exit"],
                "baseline_tests_still_pass": True,
                "checks": {p: ("caught" if v["rc"] == 1 else ("missed" if v["rc"] == 0 else f"harness-error rc={v['rc']}")) for p, v in res["checks"].items()},
                "violation_lines": {p: v["lines"][:2] for p, v in res["checks"].items()},
                "tier": tier,
            }
            with open(os.path.join(dst, "meta.json"), "w") as f:
                json.dump(meta, f, indent=1)


if __name__ == "__main__":
    main()
