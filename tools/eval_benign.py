#!/venv/bin/python
"""Evaluate property-PRESERVING changes: the registered quick check must stay quiet on them.

usage: eval_benign.py SRC_DIR [...]      (SRC_DIR holds patch.diff, demo.py, meta.json)
       eval_benign.py --recheck [ID_x ...]
       eval_benign.py --related [ID_x ...]   every OTHER check anchored in a file the stored patch touches (plus C20) must
                                             stay quiet too; verdicts go to meta.json verified.related

For every candidate: scratch copy of /repo, demo on the clean copy (exit 0), patch applied, 71-test baseline re-run,
demo on the patched copy (must ALSO exit 0 - the author's own evidence that the property still holds), then the
property's quick check against the patched copy. Verdict: quiet (rc 0) / alarm (rc 1: to be triaged by hand - either the
change does break the property in a corner its author missed, or the check demands more than the property states) /
harness error. Kept candidates live in /verif/benign/<ID>_<variant>/.
"""
import json
import os
import shutil
import subprocess
import sys

HERE = os.path.dirname(os.path.dirname(os.path.abspath(__file__)))
sys.path.insert(0, os.path.join(HERE, "mutants"))
sys.path.insert(0, os.path.join(HERE, "tools"))
import sensitivity as S  # noqa: E402
from eval_seeded import run_demo  # noqa: E402


def related_props(patch, own):
    anchors = {}
    for l in open(os.path.join(HERE, "properties.jsonl")):
        p = json.loads(l)
        for f in p["anchors"]["files"]:
            anchors.setdefault(f, set()).add(p["id"])
    touched = [l[6:].strip() for l in open(patch) if l.startswith("+++ b/")]
    out = {"C20"}
    for f in touched:
        out |= anchors.get(f, set())
    out.discard(own)
    return sorted(out)


def related_main(ids):
    ids = ids or sorted(os.listdir(os.path.join(HERE, "benign")))
    for name in ids:
        src = os.path.join(HERE, "benign", name)
        patch = os.path.join(src, "patch.diff")
        if not os.path.exists(patch):
            continue
        meta = json.load(open(os.path.join(src, "meta.json")))
        own = name[:3]
        d = S.make_copy()
        rel = {}
        lines = {}
        try:
            ap = subprocess.run(["git", "apply", "--unsafe-paths", "--directory", d, patch], capture_output=True, text=True, cwd="/")
            if ap.returncode != 0:
                print(f"{name}: patch does not apply"); continue
            for prop in related_props(patch, own):
                rc, out = S.run_check(d, prop, "quick", "1")
                rel[prop] = {0: "quiet", 1: "ALARM", 2: "harness-error"}.get(rc, str(rc))
                if rc != 0:
                    lines[prop] = [l[:400] for l in out.splitlines() if l.startswith("VIOLATION") or l.startswith("  sub=") or "HARNESS" in l][:6]
        finally:
            shutil.rmtree(d, ignore_errors=True)
        print(f"{name}: related {json.dumps(rel)}")
        for prop, ls in lines.items():
            for l in ls:
                print(f"    [{prop}] {l}")
        meta.setdefault("verified", {})["related"] = rel
        if lines:
            meta["verified"]["related_lines"] = lines
        with open(os.path.join(src, "meta.json"), "w") as f:
            json.dump(meta, f, indent=1)


def main():
    args = sys.argv[1:]
    recheck = False
    if args and args[0] == "--related":
        return related_main(args[1:])
    if args and args[0] == "--recheck":
        recheck = True
        args = args[1:] or sorted(os.listdir(os.path.join(HERE, "benign")))
        args = [os.path.join(HERE, "benign", a) for a in args]
    for src in args:
        src = os.path.abspath(src.rstrip("/"))
        if not os.path.exists(os.path.join(src, "patch.diff")):
            continue
        meta = json.load(open(os.path.join(src, "meta.json")))
        prop = meta.get("property", "")[:3]
        variant = os.path.basename(src) if not recheck else os.path.basename(src).split("_", 1)[1]
        d = S.make_copy()
        res = {}
        try:
            demo = os.path.join(src, "demo.py")
            res["demo_clean_exit"], _ = run_demo(d, demo)
            ap = subprocess.run(["git", "apply", "--unsafe-paths", "--directory", d, os.path.join(src, "patch.diff")], capture_output=True, text=True, cwd="/")
            if ap.returncode != 0:
                ap = subprocess.run(["patch", "-p1", "-i", os.path.join(src, "patch.diff")], cwd=d, capture_output=True, text=True)
            res["patch_applies"] = ap.returncode == 0
            if res["patch_applies"]:
                res["baseline_tests_missing"] = S.run_tests(d)
                res["demo_patched_exit"], res["demo_tail"] = run_demo(d, demo)
                rc, out = S.run_check(d, prop, "quick", "1")
                res["check_rc"] = rc
                res["lines"] = [l[:400] for l in out.splitlines() if l.startswith("VIOLATION") or l.startswith("  sub=") or "HARNESS" in l][:6]
        finally:
            shutil.rmtree(d, ignore_errors=True)
        ok = res.get("demo_clean_exit") == 0 and res.get("patch_applies") and not res.get("baseline_tests_missing") and res.get("demo_patched_exit") == 0
        verdict = {0: "quiet", 1: "ALARM", 2: "harness-error"}.get(res.get("check_rc"), "n/a")
        print(f"{prop}_{variant}: usable={ok} check={verdict} {json.dumps({k: v for k, v in res.items() if k not in ('lines', 'demo_tail')})}")
        for l in res.get("lines", []):
            print("    " + l)
        if ok:
            dst = os.path.join(HERE, "benign", f"{prop}_{variant}")
            os.makedirs(dst, exist_ok=True)
            if not recheck:
                for f in ("patch.diff", "demo.py"):
                    shutil.copy(os.path.join(src, f), dst)
            keep = {k: v for k, v in meta.get("verified", {}).items() if k.startswith("related")}
            meta["verified"] = {**keep, "what_i_ran": "tools/eval_benign.py: demo on clean and patched scratch copies (both exit 0), 71-test baseline on the patched copy, "
                                              "quick check against the patched copy via PYREPSEQ_SRC",
                                "check": verdict, "lines": res.get("lines", [])[:3]}
            with open(os.path.join(dst, "meta.json"), "w") as f:
                json.dump(meta, f, indent=1)


if __name__ == "__main__":
    main()
