#!/venv/bin/python
"""Insert the output of tools/seeded_table.py / tools/benign_table.py between the SEEDED_TABLE / BENIGN_TABLE markers of DESIGN.md."""
import os, subprocess, sys
HERE = os.path.dirname(os.path.dirname(os.path.abspath(__file__)))
t = subprocess.run([sys.executable, os.path.join(HERE, "tools", "seeded_table.py")], capture_output=True, text=True).stdout
p = os.path.join(HERE, "DESIGN.md")
s = open(p).read()
a, b = s.index("<!-- SEEDED_TABLE_BEGIN -->") + len("<!-- SEEDED_TABLE_BEGIN -->"), s.index("<!-- SEEDED_TABLE_END -->")
open(p, "w").write(s[:a] + "\n" + t + s[b:])
print("table rows:", t.count("\n") - 2)
s = open(p).read()
if "<!-- BENIGN_TABLE_BEGIN -->" in s:
    t = subprocess.run([sys.executable, os.path.join(HERE, "tools", "benign_table.py")], capture_output=True, text=True).stdout
    a, b = s.index("<!-- BENIGN_TABLE_BEGIN -->") + len("<!-- BENIGN_TABLE_BEGIN -->"), s.index("<!-- BENIGN_TABLE_END -->")
    open(p, "w").write(s[:a] + "\n" + t + s[b:])
    print("benign rows:", t.count("\n") - 2)
