#!/venv/bin/python
"""Print the markdown table of property-preserving changes (DESIGN.md section 8.3) from /verif/benign/*/meta.json."""
import glob
import json
import os

HERE = os.path.dirname(os.path.dirname(os.path.abspath(__file__)))
print("| id | change | incidental differences (outside the property) | own quick check | other checks anchored in the touched files |")
print("|---|---|---|---|---|")
for d in sorted(glob.glob(os.path.join(HERE, "benign", "*"))):
    mp = os.path.join(d, "meta.json")
    if not os.path.exists(mp):
        continue
    m = json.load(open(mp))
    v = m.get("verified", {})
    own = v.get("check", "")
    if m.get("triage"):
        own += " - " + m["triage"]["verdict"]
    rel = v.get("related", {})
    loud = [f"{p}: {r}" for p, r in rel.items() if r != "quiet"]
    reltxt = (f"{len(rel)} run, all quiet" if rel and not loud else ", ".join(loud) + (f" ({len(rel)} run)" if rel else "not run"))
    if v.get("related_triage"):
        reltxt += " - " + v["related_triage"]
    cell = lambda s, n: str(s).replace("|", "/").replace("\n", " ")[:n]  # noqa: E731
    print(f"| {os.path.basename(d)} | {cell(m.get('summary', ''), 200)} | {cell(m.get('incidental_changes', ''), 220)} | {own} | {reltxt} |")
